#!/usr/bin/env python3
"""Regenerates /verif/MANIFEST.json from props/*.py (claims) and props/not_applicable.json."""
import importlib
import json
import os
import subprocess
import sys

HERE = os.path.dirname(os.path.abspath(__file__))
ROOT = os.path.dirname(HERE)
sys.path.insert(0, HERE)
sys.path.insert(0, os.path.join(ROOT, "props"))
import engine  # noqa

hooks_commits = subprocess.run(["git", "-C", "/repo", "log", "--format=%H %s", "4c61d34..HEAD"],
                               capture_output=True, text=True).stdout.strip().splitlines()
checks = []
for pid in engine.all_properties():
    p = importlib.import_module(pid).PROPERTY
    engines = []
    if p.get("verus"):
        engines.append("verus")
    if p.get("kani"):
        engines.append("kani")
    checks.append({
        "property_id": pid,
        "quick_cmd": f"./check {pid} --tier quick",
        "thorough_cmd": f"./check {pid} --tier thorough",
        "evidence_file": f"/verif/evidence/{pid}.json",
        "replay_cmd_template": "./check replay {path}",
        "engine": "+".join(engines),
        "level_claimed": {"category": p["level"], "text": p["level_text"], "design_ref": p.get("design_ref", f"DESIGN.md §3 {pid}")},
        "level_note": p["level_note"],
        "technique": p["technique"],
    })
na = json.load(open(os.path.join(ROOT, "props", "not_applicable.json")))
claimed = {c["property_id"] for c in checks}
na = [x for x in na if x["property_id"] not in claimed]
man = {
    "version": 1,
    "setup_cmd": "./check setup",
    "hooks": {
        "guard": "cfg(kani)",
        "enable": "cargo kani sets --cfg=kani itself; checks copy /repo to a scratch tree, add the harness modules (`#[cfg(kani)] mod verif_kani;` hook points) and run `cargo kani` there. Verus units need no hook (they read /repo's text).",
        "baseline_off_cmd": "cd /repo && cargo nextest run --workspace --no-fail-fast --test-threads 8 --offline || cargo test --workspace --no-fail-fast --offline",
        "source_commits": [c.split()[0] for c in hooks_commits if not c.split(" ", 1)[1].startswith("fix:")],
        "add_only": True,
    },
    "engines": [
        {"name": "verus", "path": "/verif/lib/verus.py", "serves_properties": [c["property_id"] for c in checks if "verus" in c["engine"]],
         "kind_free_text": "deductive verifier (Verus 0.2026.09.13 / Z3) on functions extracted mechanically from /repo on every run; contracts, invariants, lemmas in /verif/verus/*.vrs"},
        {"name": "kani", "path": "/verif/lib/kani.py", "serves_properties": [c["property_id"] for c in checks if "kani" in c["engine"]],
         "kind_free_text": "Kani 0.68 / CBMC 6.11 on the real crates (scratch copy of /repo + harness modules from /verif/kani); function contracts and loop-free full-domain harnesses = complete proofs, unwound harnesses = bounded stand-ins, labelled as such"},
    ],
    "checks": checks,
    "not_applicable": na,
    "notes": "Exit codes: 0 held, 1 VIOLATION (line printed), 2 undecided (tool limit / lost anchor / time-out) — never a VIOLATION line. Known findings: /verif/known_findings.txt.",
}
json.dump(man, open(os.path.join(ROOT, "MANIFEST.json"), "w"), indent=1)
print("MANIFEST.json:", len(checks), "checks,", len(na), "not applicable")
