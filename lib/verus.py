"""Verus unit = template (.vrs) + functions extracted mechanically from /repo on every run.

Template syntax (everything else is copied through verbatim):

  //@EXTRACT file=<path in repo> [impl="<impl header regex>"] fn=<name> [sha=<16 hex>] [id=<obligation suffix>]
  //@RET <name>                     name the return value:  -> T   becomes   -> (name: T)
  //@SPEC                           following lines inserted between signature and body (requires/ensures/decreases)
  //@SUBST <kind>                   following lines = exact old text (must occur once in the function) ...
  //@WITH                           ... replaced by the following lines. kinds: closure-contract, std-wrap, verus-syntax
  //@PROOF before|after             following lines = exact anchor text (once) ...
  //@WITH                           ... ghost text (proof block / assert) inserted before/after it
  //@LOOP <n>                       following lines (invariant/decreases) inserted before the `{` of the n-th loop
  //@END

  //@TYPE file=<path> name=<Name>   struct/enum definition copied verbatim minus attributes and doc comments
  //@CANARY-BEGIN / //@CANARY-END   text only present in the canary run, which must produce an error inside it

Automatic, always recorded: drop-attr (attributes, doc comments before the fn), drop-log (statements that are exactly one
tracing macro call), underscore-closure (`|_|` -> `|_e|`), debug-assert-eq, ref-pattern (`if let Some(&x) = e {` ->
`if let Some(x__ref) = e { let x = *x__ref;`).
Anything else that does not fit => ExtractError => the obligation is UNDECIDED (exit 2), never a violation.
"""
import json
import os
import re
import subprocess
import tempfile
import time

import common
import rustscan
from common import ROOT, log

PROOF_FAILURE_PATTERNS = (
    "postcondition not satisfied", "precondition not satisfied", "assertion failed",
    "invariant not satisfied", "possible arithmetic underflow/overflow", "possible division by zero",
    "possible bit shift underflow/overflow", "decreases not satisfied", "loop invariant not preserved",
    "unreachable", "index out of bounds", "failed this", "recommendation not met",
    "could not prove termination", "might not be allowed", "unable to prove", "fails to satisfy",
)
LOG_MACROS = ("trace", "debug", "info", "warn", "error")
SUBST_KINDS = ("closure-contract", "std-wrap", "std-wrap-all", "verus-syntax", "split-or-guard", "for-ghost-iter", "assoc-type", "eta-ctor", "enumerate-iter-mut", "enumerate-iter", "iter-map-collect", "name-impl-trait", "then-transpose", "fn-ptr-generic")


class ExtractError(Exception):
    pass


def _parse_kv(line):
    out = {}
    for m in re.finditer(r'(\w+)=("([^"]*)"|\S+)', line):
        out[m.group(1)] = m.group(3) if m.group(3) is not None else m.group(2)
    return out


PINNED_DIR = os.path.join(os.path.dirname(os.path.dirname(os.path.abspath(__file__))), "verus", "pinned")
_TOK = re.compile(r'"(?:\\.|[^"\\])*"|\'(?:\\.|[^\'\\])\'|//[^\n]*|/\*.*?\*/|[A-Za-z_]\w*|\d\w*|\S', re.S)


def _pinned_path(template, d):
    key = re.sub(r"[^A-Za-z0-9_]+", "_", f"{d.get('impl') or ''}__{d['fn']}").strip("_")
    return os.path.join(PINNED_DIR, os.path.splitext(os.path.basename(template))[0], key + ".rs")


def _tokens(text):
    return [t for t in _TOK.findall(text) if not t.startswith("//") and not t.startswith("/*")]


def _binders(text):
    """names introduced by let / closure parameters / for / Some|Ok|Err(..) patterns (over-approximation is harmless: the
    token-wise bijection below is what makes the comparison an alpha-equivalence check)"""
    b = set()
    for m in re.finditer(r"\blet\s+(?:mut\s+)?([a-z_]\w*)\b", text):
        b.add(m.group(1))
    for m in re.finditer(r"\b(?:let|for)\s+\(([^()]*)\)", text):
        b.update(re.findall(r"[a-z_]\w*", m.group(1)))
    for m in re.finditer(r"\bfor\s+([a-z_]\w*)\s+in\b", text):
        b.add(m.group(1))
    for m in re.finditer(r"\|([^|()]*)\|", text):
        for part in m.group(1).split(","):
            mm = re.match(r"\s*(?:mut\s+|&\s*)?([a-z_]\w*)", part)
            if mm:
                b.add(mm.group(1))
    for m in re.finditer(r"\b(?:Some|Ok|Err)\(\s*(?:ref\s+|mut\s+)?([a-z_]\w*)\s*\)\s*(?:=(?!=)|=>|\|)", text):
        b.add(m.group(1))
    return b - {"mut", "ref", "self"}


def alpha_equivalent(cur, pinned):
    """-> {cur name: pinned name} if `cur` is `pinned` with local binders renamed consistently (and nothing else), else None"""
    a, b = _tokens(cur), _tokens(pinned)
    if len(a) != len(b):
        return None
    fwd, bwd, ren = {}, {}, {}
    binders = _binders(pinned)
    ident = re.compile(r"^[A-Za-z_]\w*$")
    for i, (x, y) in enumerate(zip(a, b)):
        if not (ident.match(x) and ident.match(y)):
            if x != y:
                return None
            continue
        if fwd.setdefault(x, y) != y or bwd.setdefault(y, x) != x:
            return None
        if x != y:
            prev = a[i - 1] if i else ""
            nxt = a[i + 1] if i + 1 < len(a) else ""
            if y not in binders or prev in (".", "::") or nxt in ("::", "!") or (prev == ":" and i > 1 and a[i - 2] == ":"):
                return None
            ren[x] = y
    return ren if ren else None



def _find_fn(src, impl_re, name):
    hdr = r"(?:pub(?:\([a-z:_ ]+\))?\s+)?(?:const\s+)?(?:async\s+)?(?:unsafe\s+)?fn\s+%s\b" % re.escape(name)
    if not impl_re:
        it = rustscan.find_block(src, hdr, 0, None, 0)
        if it is None:
            raise ExtractError(f"lost anchor: fn {name} not found")
        return it
    # the impl header is matched as a whole word sequence followed by `{` / `where`; several impl blocks may
    # share a header (e.g. two `impl QueryParameters<'_>`): the fn must be found in exactly one of them
    blocks = rustscan.find_block(src, impl_re + r"(?=\s*(\{|where\b))", all_matches=True)
    if not blocks:
        raise ExtractError(f"lost anchor: no item matching /{impl_re}/")
    hits = []
    for blk in blocks:
        it = rustscan.find_block(src, hdr, blk.body_open + 1, blk.body_close, 0)
        if it is not None:
            hits.append(it)
    if len(hits) != 1:
        raise ExtractError(f"lost anchor: fn {name} found {len(hits)} times in /{impl_re}/")
    return hits[0]


def _preceding_attr_lines(src, start):
    """attribute / doc-comment / blank lines immediately before an item (walks back until other code)"""
    out = []
    for l in reversed(src[:start].splitlines()[:-1] if not src[:start].endswith("\n") else src[:start].splitlines()):
        t = l.strip()
        if t == "" or t.startswith(("///", "//", "#[", "#![")) or (out and t.endswith(")]")):
            out.append(t)
        else:
            break
    return [x for x in reversed(out) if x]


def _once(hay, needle, what):
    c = hay.count(needle)
    if c != 1:
        raise ExtractError(f"lost anchor: {what} occurs {c} times (needs exactly 1): {needle[:80]!r}")
    return hay.index(needle)


def _drop_inner_lint_attrs(body):
    """remove lint attributes on expressions/statements inside a body: #[deny(..)] #[allow(..)] #[expect(..)] #[warn(..)]"""
    mask = rustscan.code_mask(body)
    out, dropped, i = [], [], 0
    for m in re.finditer(r"#\[(deny|allow|expect|warn)\(", body):
        if m.start() < i or not mask[m.start()]:
            continue
        close = rustscan.match_close(body, mask, m.start() + 1)
        out.append(body[i:m.start()])
        dropped.append(rustscan.norm_ws(body[m.start():close + 1]))
        i = close + 1
    out.append(body[i:])
    return "".join(out), dropped


def _drop_logs(body, record):
    mask = rustscan.code_mask(body)
    out = []
    i = 0
    for m in re.finditer(r"\b(%s)!\s*\(" % "|".join(LOG_MACROS), body):
        if m.start() < i or not mask[m.start()]:
            continue
        # must be a whole statement: preceded (ignoring ws) by `{`, `;` or `}`
        k = m.start() - 1
        while k >= 0 and (body[k].isspace() or not mask[k]):
            k -= 1
        if k >= 0 and body[k] not in "{;}":
            continue
        close = rustscan.match_close(body, mask, m.end() - 1)
        j = close + 1
        while j < len(body) and body[j].isspace():
            j += 1
        if j < len(body) and body[j] == ";":
            j += 1
        elif j < len(body) and body[j] == "}":
            pass
        else:
            continue
        args = body[m.end():close]
        if re.search(r"(\+=|-=|\.push\(|\.insert\(|\.remove\(|\.take\(|\.pop\(|[^=!<>]=[^=])", re.sub(r'"(\\.|[^"\\])*"', '""', args)):
            raise ExtractError("drop-log candidate with possible side effects: " + rustscan.norm_ws(args)[:100])
        out.append(body[i:m.start()])
        record.append({"kind": "drop-log", "dropped": rustscan.norm_ws(body[m.start():j])[:160]})
        i = j
    out.append(body[i:])
    return "".join(out)


def find_closures(text):
    """-> list of (start, params_text, body_start, body_end) for closures `|p| body` in code order"""
    mask = rustscan.code_mask(text)
    out = []
    i = 0
    n = len(text)
    while i < n:
        if mask[i] and text[i] == "|" and not (i + 1 < n and text[i + 1] == "|" and False):
            k = i - 1
            while k >= 0 and text[k].isspace():
                k -= 1
            prev = text[k] if k >= 0 else "("
            is_start = prev in "(,={;" or text[max(0, k - 3):k + 1] == "move" or text[max(0, k - 5):k + 1] == "return"
            if not is_start:
                i += 1
                continue
            if i + 1 < n and text[i + 1] == "|":   # `||` : closure without params
                pe = i + 1
            else:
                pe = text.find("|", i + 1)
                if pe < 0:
                    break
            params = text[i + 1:pe]
            j = pe + 1
            while j < n and text[j].isspace():
                j += 1
            if j < n and text[j] == "{":
                be = rustscan.match_close(text, mask, j) + 1
            else:
                depth = 0
                be = j
                while be < n:
                    if mask[be]:
                        ch = text[be]
                        if ch in "([{":
                            depth += 1
                        elif ch in ")]}":
                            if depth == 0:
                                break
                            depth -= 1
                        elif ch in ",;" and depth == 0:
                            break
                    be += 1
            st = i
            if text[max(0, k - 3):k + 1] == "move":
                st = k - 3
            out.append((st, params, j, be))
            i = be
        else:
            i += 1
    return out


def _apply_closure(whole, n, header, tr):
    cl = find_closures(whole)
    if n > len(cl):
        raise ExtractError(f"lost anchor: closure #{n} not found ({len(cl)} closures)")
    st, params, bs, be = cl[n - 1]
    names_src = [q.split(":")[0].strip() for q in _split_top(params) if q.strip()]
    mh = re.match(r"\s*(move\s+)?\|([^|]*)\|\s*(->.*)$", header.strip(), re.S)
    if not mh:
        raise ExtractError("CLOSURE: header must look like |p: T| -> (b: R) ensures ...")
    names_hdr = [q.split(":")[0].strip() for q in _split_top(mh.group(2)) if q.strip()]
    plain_src = [x.lstrip("&").replace("mut ", "").strip() for x in names_src]
    if plain_src != names_hdr:
        # the source's parameter names win: alpha-rename the contract's (same arity, plain identifiers, no capture)
        ok = len(plain_src) == len(names_hdr) and all(re.fullmatch(r"[a-z_][a-z0-9_]*", x) for x in plain_src + names_hdr)
        if ok:
            for a, b in zip(names_hdr, plain_src):
                if a != b and re.search(r"\b%s\b" % re.escape(b), header):
                    ok = False
        if not ok:
            raise ExtractError(f"lost anchor: closure #{n} parameters {names_src} != contract's {names_hdr}")
        for a, b in zip(names_hdr, plain_src):
            header = re.sub(r"\b%s\b" % re.escape(a), b, header)
        tr.append({"kind": "closure-contract-rename", "closure": n, "from": names_hdr, "to": plain_src})
    body = whole[bs:be].strip()
    if body.startswith("{") and body.endswith("}"):
        new = header.strip() + " " + body
    else:
        new = header.strip() + " { " + body + " }"
    tr.append({"kind": "closure-contract", "closure": n, "body_verbatim": rustscan.norm_ws(body)[:200],
               "contract": rustscan.norm_ws(header)[:300]})
    return whole[:st] + new + whole[be:]


def _meta_regex(pat):
    """`$x` placeholders match a (lazy) balanced chunk; the rest is literal modulo whitespace."""
    parts = re.split(r"(\$\w+)", pat.strip())
    rx = ""
    names = []
    for part in parts:
        if part.startswith("$"):
            names.append(part[1:])
            rx += r"(?P<%s>[^;{}]+?)" % part[1:]
        else:
            rx += r"\s*".join(re.escape(tok) for tok in part.split())
            if part[:1].isspace() and rx:
                pass
    return rx, names


def _validate_subst(kind, old, new, template_text):
    if kind not in SUBST_KINDS:
        raise ExtractError(f"unknown SUBST kind {kind}")
    if kind == "closure-contract":
        mo = re.match(r"\s*(move\s+)?\|([^|]*)\|\s*(.*)$", old, re.S)
        mn = re.match(r"\s*(move\s+)?\|([^|]*)\|\s*->\s*\((\w+)\s*:\s*[^)]+\)\s*(?:requires|ensures)\b.*?\{(.*)\}\s*$", new, re.S)
        if not mo or not mn:
            raise ExtractError("closure-contract: cannot parse closure / contract form")
        names_o = [p.split(":")[0].strip().lstrip("&").strip() for p in mo.group(2).split(",") if p.strip()]
        names_n = [p.split(":")[0].strip() for p in _split_top(mn.group(2)) if p.strip()]
        if names_o != names_n:
            raise ExtractError(f"closure-contract: parameter names differ {names_o} vs {names_n}")
        body_o = mo.group(3).strip()
        if body_o.startswith("{") and body_o.endswith("}"):
            body_o = body_o[1:-1]
        if rustscan.norm_ws(body_o) != rustscan.norm_ws(mn.group(4)):
            raise ExtractError("closure-contract: closure body is not verbatim")
    elif kind in ("std-wrap", "std-wrap-all"):
        wrappers = set(re.findall(r"#\[verifier::external_body\]\s*(?:pub\s+)?fn\s+(\w+)\b", template_text))
        used = [w for w in re.findall(r"\b(\w+)\s*\(", new) if w in wrappers]
        if not used:
            raise ExtractError("std-wrap: replacement must call an external_body wrapper fn of the template")
    elif kind == "assoc-type":
        # `Self::Name` -> the type the enclosing impl binds with `type Name = T;` (checked by the caller against the source)
        if not re.match(r"^Self::\w+$", old.strip()):
            raise ExtractError("assoc-type: old text must be `Self::<Name>`")
    elif kind == "eta-ctor":
        # a tuple-variant constructor used as a function value is eta-expanded: `E::V` -> `|e| E::V(e)`
        m = re.match(r"^\|(\w+)\|\s*([\w:]+)\((\w+)\)$", new.strip())
        if not m or m.group(1) != m.group(3) or m.group(2) != old.strip():
            raise ExtractError("eta-ctor: replacement must be `|e| <old>(e)`")
    elif kind == "name-impl-trait":
        # argument-position `impl Bound` is an anonymous generic parameter; naming it lets the contract mention the type:
        # `f(a: &X<impl B1, impl B2>` -> `f<K: B1, V: B2>(a: &X<K, V>`. Validated: re-anonymising the new text gives the old.
        m = re.match(r"^(\w+)\s*<([^()]*)>\s*\((.*)$", new.strip(), re.S)
        if not m:
            raise ExtractError("name-impl-trait: replacement must be `name<G: Bound, ...>(args`")
        gens = [g.strip() for g in _split_top(m.group(2)) if g.strip()]
        back = m.group(3)
        for g in gens:
            gm = re.match(r"^(\w+)\s*:\s*(.+)$", g, re.S)
            if not gm:
                raise ExtractError("name-impl-trait: every new generic needs its bound")
            back, k = re.subn(r"\b%s\b" % re.escape(gm.group(1)), "impl " + gm.group(2).strip(), back)
            if k != 1:
                raise ExtractError("name-impl-trait: a named generic must replace exactly one `impl Bound`")
        if rustscan.norm_ws(m.group(1) + "(" + back).replace(" ", "") != rustscan.norm_ws(old).replace(" ", ""):
            raise ExtractError("name-impl-trait: re-anonymised replacement differs from the original signature text")
    elif kind == "fn-ptr-generic":
        # function-pointer parameters become generic `Fn` parameters (Verus has no fn-pointer types; a fn item or a
        # non-capturing closure passed by the callers coerces to either): `f<G..>(.., p: fn(A) -> R, ..)` ->
        # `f<G.., FP1: Fn(A) -> R>(.., p: FP1, ..)`. The replacement is GENERATED from the old text and must equal the
        # template's text modulo whitespace.
        o = rustscan.norm_ws(old)
        ptrs = list(re.finditer(r":\s*fn\(([^()]*)\)\s*->\s*((?:[^,<>]|<[^<>]*(?:<[^<>]*>[^<>]*)*>)+?)\s*,(?=\s*(?:\w+\s*:|\)))", o))
        mh = re.match(r"^(\w+)\s*<([^()]*?)>\s*\(", o)
        if not ptrs or not mh:
            raise ExtractError("fn-ptr-generic: old text must be `name<generics>(params with fn(..) -> R, ...)`")
        gen_extra, out, last = [], "", 0
        for i, m in enumerate(ptrs, 1):
            gen_extra.append(f"FP{i}: Fn({m.group(1)}) -> {m.group(2)} + Copy")   # fn pointers are Copy; the body may pass them on repeatedly
            out += o[last:m.start()] + f": FP{i},"
            last = m.end()
        out += o[last:]
        out = out.replace(mh.group(0), f"{mh.group(1)}<{mh.group(2)}, {', '.join(gen_extra)}>(", 1)
        strip = lambda t: re.sub(r"\s+", "", t)
        if strip(out) != strip(new):
            raise ExtractError("fn-ptr-generic: replacement differs from the generated one: " + out)
    elif kind == "then-transpose":
        # `C.then(|| E).transpose()?`  ->  `if C { Some(E?) } else { None }`  (bool::then runs the closure iff C; transpose
        # turns Some(Err(e)) into Err(e), which `?` returns through the same From conversion as `E?` does)
        mo = re.match(r"^(\w+)\s*\.then\(\s*\|\|\s*(.+?)\s*\)\s*\.transpose\(\)\s*\?$", rustscan.norm_ws(old), re.S)
        mn = re.match(r"^\(?\s*if\s+(\w+)\s*\{\s*Some\(\s*(.+?)\s*\?\s*\)\s*\}\s*else\s*\{\s*None\s*\}\s*\)?$", rustscan.norm_ws(new), re.S)
        strip = lambda t: re.sub(r"\s+", "", t)
        if not mo or not mn or mo.group(1) != mn.group(1) or strip(mo.group(2)) != strip(mn.group(2)):
            raise ExtractError("then-transpose: shapes do not correspond")
    elif kind == "for-ghost-iter":
        # `for PAT in EXPR` -> `for PAT' in NAME: EXPR` where PAT' is PAT or `_x` for `_` (names the loop's ghost iterator)
        mo = re.match(r"^for\s+(\S+|\([^)]*\))\s+in\s+(.+)$", old.strip(), re.S)
        mn = re.match(r"^for\s+(\S+|\([^)]*\))\s+in\s+(\w+)\s*:\s*(.+)$", new.strip(), re.S)
        if not mo or not mn or rustscan.norm_ws(mo.group(2)) != rustscan.norm_ws(mn.group(3)) or \
                not (mo.group(1) == mn.group(1) or (mo.group(1) == "_" and mn.group(1).startswith("_"))):
            raise ExtractError("for-ghost-iter: only the ghost iterator name may be added")
    elif kind == "split-or-guard":
        # `P1 | P2 if G => BODY`  ->  `P1 if G => BODY  P2 if G => BODY` (Verus rejects or-pattern + guard in one arm)
        m = re.match(r"^(.*?)\s+if\s+(.*?)\s*=>\s*(\{.*\})\s*,?$", old, re.S)
        if not m:
            raise ExtractError("split-or-guard: old text is not `pats if guard => { body }`")
        pats = [x.strip() for x in m.group(1).split("|") if x.strip()]
        want = " ".join(f"{pt} if {m.group(2)} => {m.group(3)}" for pt in pats)
        strip = lambda t: re.sub(r"[\s,]", "", t)
        if strip(want) != strip(new):
            raise ExtractError("split-or-guard: replacement is not the arm repeated once per alternative")
    elif kind == "verus-syntax":
        # purely syntactic re-spelling Verus needs; both sides must be equal after removing type
        # ascriptions / turbofish / parentheses / `as` casts-free whitespace. Kept deliberately narrow.
        strip = lambda s: re.sub(r"[\s()]", "", re.sub(r"::<[^>]*>", "", s))
        if strip(old) != strip(new):
            raise ExtractError("verus-syntax: texts differ by more than parentheses/turbofish/whitespace")


def _split_top(s):
    out, depth, cur = [], 0, ""
    for ch in s:
        if ch in "(<[":
            depth += 1
        elif ch in ")>]":
            depth -= 1
        if ch == "," and depth == 0:
            out.append(cur)
            cur = ""
        else:
            cur += ch
    out.append(cur)
    return out


def extract_fn(repo, d, template_text, template_path=None):
    """d: directive dict -> (generated text, record)"""
    path = os.path.join(repo, d["file"])
    try:
        src = open(path, encoding="utf-8").read()
    except OSError:
        raise ExtractError(f"lost anchor: file {d['file']} missing")
    try:
        it = _find_fn(src, d.get("impl"), d["fn"])
    except ValueError as e:
        raise ExtractError(str(e))
    rec = {"file": d["file"], "fn": d["fn"], "impl": d.get("impl"), "sha256": common.sha256_text(it.text),
           "line": src.count("\n", 0, it.start) + 1, "transformations": []}
    tr = rec["transformations"]
    sig, body = it.sig.rstrip(), it.body
    # locals renamed and nothing else? then the pinned text (kept by `./check pin`) IS this function up to alpha-conversion:
    # verify that text, so that ghost text and anchors that mention locals keep working
    if d.get("sha") and not rec["sha256"].startswith(d["sha"]) and template_path:
        pp = _pinned_path(template_path, d)
        if os.path.exists(pp):
            ptxt = open(pp, encoding="utf-8").read()
            if common.sha256_text(ptxt).startswith(d["sha"]):
                ren = alpha_equivalent(it.text, ptxt)
                if ren:
                    sig, body = _resplit(ptxt)
                    sig = sig.rstrip()
                    rec["source_sha256"] = rec["sha256"]
                    rec["sha256"] = common.sha256_text(ptxt)
                    tr.append({"kind": "alpha-rename", "renamed_locals": ren,
                               "note": "the current text equals the pinned text up to a consistent renaming of local binders; the pinned spelling is verified"})
    # attributes/doc comments before the fn are simply not part of the span => drop-attr
    dropped = _preceding_attr_lines(src, it.start)
    if dropped:
        tr.append({"kind": "drop-attr", "dropped": [x[:80] for x in dropped if x.startswith("#[")] or "doc comments"})
    if d.get("impl") and re.search(r"\bfor\b", d["impl"]):
        tr.append({"kind": "rehome", "what": f"method of `{d['impl']}` placed in an inherent impl of the template (no dynamic dispatch in its body)"})
    body, inner = _drop_inner_lint_attrs(body)
    if inner:
        tr.append({"kind": "drop-attr", "dropped": inner})
    body = _drop_logs(body, tr)
    if re.search(r"\|\s*_\s*\|", body):
        body = re.sub(r"\|\s*_\s*\|", "|_e|", body)
        tr.append({"kind": "underscore-closure"})
    # `debug_assert_eq!(a, b);` -> `debug_assert!(a == b);` (same condition; Verus proves debug_assert!'s condition as an
    # obligation but does not know assert_eq's panic plumbing). Only the two-argument form without a message.
    def _dbg_eq(m):
        args = _split_top(m.group(1))
        if len(args) != 2:
            raise ExtractError("debug_assert_eq! with a message is not handled")
        return f"debug_assert!({args[0].strip()} == {args[1].strip()});"
    n_eq = len(re.findall(r"\bdebug_assert_eq!\(", body))
    if n_eq:
        body = re.sub(r"\bdebug_assert_eq!\(((?:[^()]|\([^()]*\))*)\);", _dbg_eq, body)
        tr.append({"kind": "debug-assert-eq", "count": n_eq})
    # `if let Some(&x) = e {`  ->  `if let Some(x__ref) = e { let x = *x__ref;`  (the reference pattern copies the referent
    # out, which is what the added `let` does; Verus has no reference patterns)
    n_ref = 0
    def _ref_pat(m):
        nonlocal n_ref
        n_ref += 1
        return f"if let Some({m.group(1)}__ref) = {m.group(2)} {{ let {m.group(1)} = *{m.group(1)}__ref;"
    body = re.sub(r"\bif\s+let\s+Some\(\s*&\s*([a-z_][a-z0-9_]*)\s*\)\s*=\s*([^{};]+?)\s*\{", _ref_pat, body)
    if n_ref:
        tr.append({"kind": "ref-pattern", "count": n_ref})
    for c in sorted(d.get("closures", []), key=lambda x: -x["n"]):
        whole = _apply_closure(sig + body, c["n"], c["text"], tr)
        sig, body = _resplit(whole)
    for s in d.get("subst", []):
        old, new, kind = s["old"].strip(), s["new"].strip(), s["kind"]
        if kind == "assoc-type":
            nm = old.split("::")[1]
            binds = re.findall(r"type\s+%s\s*=\s*([^;]+);" % re.escape(nm), src)
            if not any(rustscan.norm_ws(b) == rustscan.norm_ws(new) for b in binds):
                raise ExtractError(f"assoc-type: the source has no `type {nm} = {new};`")
            cnt = (sig + body).count(old)
            if cnt < 1:
                raise ExtractError(f"lost anchor: {old} does not occur")
            sig, body = _resplit((sig + body).replace(old, new))
            tr.append({"kind": kind, "old": old, "new": new, "occurrences": cnt})
            continue
        whole = sig + body
        if kind == "enumerate-iter-mut":
            # Desugaring of `for (I, X) in E.iter_mut().enumerate() { BODY }` over a slice / boxed slice / Vec `E` into the
            # index loop `for I in IT: 0..E.len() { BODY[*X := E[I], X. := E[I].] }`. Trusted rule (std semantics: the
            # adapter yields (i, &mut E[i]) for i = 0..len in order); checked mechanically: the header shapes, and that
            # the loop variable X occurs in BODY only as `*X` or `X.` and E does not occur in BODY at all.
            mo = re.match(r"^for\s*\(\s*(\w+)\s*,\s*(\w+)\s*\)\s+in\s+(.+?)\s*\.iter_mut\(\)\s*\.enumerate\(\)$", rustscan.norm_ws(old))
            mn = re.match(r"^for\s+(\w+)\s+in\s+(\w+)\s*:\s*0\s*\.\.\s*(.+?)\s*\.len\(\)$", rustscan.norm_ws(new))
            if not mo or not mn or mo.group(1) != mn.group(1) or rustscan.norm_ws(mo.group(3)) != rustscan.norm_ws(mn.group(3)):
                raise ExtractError("enumerate-iter-mut: header shapes do not correspond")
            idx, var, coll = mo.group(1), mo.group(2), rustscan.norm_ws(mo.group(3))
            rx, _ = _meta_regex(old)
            ms = list(re.finditer(rx, whole))
            if len(ms) != 1:
                raise ExtractError(f"lost anchor: SUBST enumerate-iter-mut header occurs {len(ms)} times (needs exactly 1): {old[:80]!r}")
            mask = rustscan.code_mask(whole)
            bo = whole.index("{", ms[0].end())
            bc = rustscan.match_close(whole, mask, bo)
            lbody = whole[bo:bc + 1]
            if re.search(re.escape(coll).replace(r"\ ", r"\s*"), lbody):
                raise ExtractError("enumerate-iter-mut: the collection is used inside the loop body")
            n_deref = len(re.findall(r"\*\s*%s\b" % re.escape(var), lbody))
            n_meth = len(re.findall(r"(?<![\w*])%s\s*\." % re.escape(var), lbody))
            n_all = len(re.findall(r"\b%s\b" % re.escape(var), lbody))
            if n_all != n_deref + n_meth:
                raise ExtractError("enumerate-iter-mut: the loop variable is used other than as `*x` or `x.`")
            elem = f"{coll}[{idx}]"
            lbody2 = re.sub(r"\*\s*%s\b" % re.escape(var), elem, lbody)
            lbody2 = re.sub(r"(?<![\w*\]])%s\s*\." % re.escape(var), elem + ".", lbody2)
            whole = whole[:ms[0].start()] + new + whole[ms[0].end():bo] + lbody2 + whole[bc + 1:]
            sig, body = _resplit(whole)
            tr.append({"kind": kind, "old": rustscan.norm_ws(old), "new": rustscan.norm_ws(new), "element": elem, "rewritten_uses": n_all})
            continue
        if kind == "iter-map-collect":
            # Desugaring of `let X = E.iter().map(|V| F).collect::<Vec<_>>();` into
            # `let mut X = Vec::new(); for V in IT: E.iter() { X.push(F); }` (trusted rule: map/collect over a slice
            # iterator builds the vector of F(v) in order). Checked mechanically: both shapes, same X, E, V, F.
            mo = re.match(r"^let\s+(\w+)\s*=\s*(.+?)\s*\.iter\(\)\s*\.map\(\s*\|\s*(\w+)\s*\|\s*(.+?)\s*\)\s*\.collect::<Vec<_>>\(\);$", rustscan.norm_ws(old), re.S)
            mn = re.match(r"^let\s+mut\s+(\w+)\s*=\s*Vec::new\(\);\s*for\s+(\w+)\s+in\s+(\w+)\s*:\s*(.+?)\s*\.iter\(\)\s*\{\s*(\w+)\.push\((.+)\);\s*\}$", rustscan.norm_ws(new), re.S)
            strip = lambda t: re.sub(r"\s+", "", t)
            if not mo or not mn or mo.group(1) != mn.group(1) or mn.group(5) != mn.group(1) or mo.group(3) != mn.group(2) \
                    or strip(mo.group(2)) != strip(mn.group(4)) or strip(mo.group(4)) != strip(mn.group(6)):
                raise ExtractError("iter-map-collect: the two shapes do not correspond")
            rx, _ = _meta_regex(old)
            ms = list(re.finditer(rx, whole))
            if len(ms) != 1:
                raise ExtractError(f"lost anchor: SUBST iter-map-collect text occurs {len(ms)} times (needs exactly 1): {old[:80]!r}")
            whole = whole[:ms[0].start()] + new + whole[ms[0].end():]
            sig, body = _resplit(whole)
            tr.append({"kind": kind, "old": rustscan.norm_ws(old)[:200], "new": rustscan.norm_ws(new)[:300]})
            continue
        if kind == "enumerate-iter":
            # Desugaring of `for (I, X) in E.iter().enumerate() { BODY }` over a slice / Vec `E` into
            # `for I in IT: 0..E.len() { let X = &E[I]; BODY }` (trusted rule: the adapter yields (i, &E[i]) for i = 0..len in
            # order). Checked mechanically: the header shapes correspond.
            mo = re.match(r"^for\s*\(\s*(\w+)\s*,\s*(\w+)\s*\)\s+in\s+(.+?)\s*\.iter\(\)\s*\.enumerate\(\)$", rustscan.norm_ws(old))
            mn = re.match(r"^for\s+(\w+)\s+in\s+(\w+)\s*:\s*0\s*\.\.\s*(.+?)\s*\.len\(\)$", rustscan.norm_ws(new))
            if not mo or not mn or mo.group(1) != mn.group(1) or rustscan.norm_ws(mo.group(3)) != rustscan.norm_ws(mn.group(3)):
                raise ExtractError("enumerate-iter: header shapes do not correspond")
            idx, var, coll = mo.group(1), mo.group(2), rustscan.norm_ws(mo.group(3))
            rx, _ = _meta_regex(old)
            ms = list(re.finditer(rx, whole))
            if len(ms) != 1:
                raise ExtractError(f"lost anchor: SUBST enumerate-iter header occurs {len(ms)} times (needs exactly 1): {old[:80]!r}")
            mask = rustscan.code_mask(whole)
            bo = whole.index("{", ms[0].end())
            bc = rustscan.match_close(whole, mask, bo)
            lbody = whole[bo:bc + 1]
            # (E may be READ in BODY: the shared borrow held by the iterator already forbids mutating it there)
            whole = whole[:ms[0].start()] + new + whole[ms[0].end():bo] + "{\n                let " + var + " = &" + coll + "[" + idx + "];" + lbody[1:] + whole[bc + 1:]
            sig, body = _resplit(whole)
            tr.append({"kind": kind, "old": rustscan.norm_ws(old), "new": rustscan.norm_ws(new), "element": f"&{coll}[{idx}]"})
            continue
        if s.get("optional"):
            if kind not in ("std-wrap", "std-wrap-all"):
                raise ExtractError("only std-wrap substitutions may be optional")
            rx0, _ = _meta_regex(old)
            if not re.search(rx0, whole):
                tr.append({"kind": kind, "old": rustscan.norm_ws(old)[:200], "skipped": "the wrapped call does not occur in the current text (optional substitution)"})
                continue
        if kind == "std-wrap-all":
            # every occurrence of a receiver expression is routed through a trusted accessor
            if "$" in old:
                raise ExtractError("std-wrap-all takes literal text (wildcards are only substituted by std-wrap)")
            rx, _ = _meta_regex(old)
            cnt = len(re.findall(rx, whole))
            if cnt < 1:
                raise ExtractError(f"lost anchor: SUBST std-wrap-all text does not occur: {old[:80]!r}")
            _validate_subst(kind, old, new, template_text)
            whole = re.sub(rx, lambda _m: new, whole)
            sig, body = _resplit(whole)
            tr.append({"kind": kind, "old": old, "new": new, "occurrences": cnt})
            continue
        if "$" in old:
            rx, names = _meta_regex(old)
            ms = list(re.finditer(rx, whole))
            if len(ms) != 1:
                raise ExtractError(f"lost anchor: SUBST {kind} pattern matches {len(ms)} times: {old[:80]!r}")
            m = ms[0]
            for nm in names:
                if "$" + nm not in new:
                    raise ExtractError(f"SUBST {kind}: wildcard ${nm} is not carried over into the replacement (its text would be dropped)")
                new = new.replace("$" + nm, m.group(nm).strip())
            old_txt = m.group(0)
            _validate_subst(kind, old_txt, new, template_text)
            whole = whole[:m.start()] + new + whole[m.end():]
            old = old_txt
        else:
            # literal text, compared modulo whitespace
            rx, _ = _meta_regex(old)
            ms = list(re.finditer(rx, whole))
            if len(ms) != 1:
                raise ExtractError(f"lost anchor: SUBST {kind} old text occurs {len(ms)} times (needs exactly 1): {old[:80]!r}")
            _validate_subst(kind, ms[0].group(0), new, template_text)
            whole = whole[:ms[0].start()] + new + whole[ms[0].end():]
        # the signature never contains `{`; re-split at the first code-level brace
        sig, body = _resplit(whole)
        tr.append({"kind": kind, "old": rustscan.norm_ws(old)[:200], "new": rustscan.norm_ws(new)[:300]})
    # ordinal anchors first (positions computed on the body before any ghost text is inserted)
    ords = [p for p in d.get("proof", []) if p["where"].startswith(("before-stmt", "after-stmt"))]
    if ords:
        spans = _top_level_stmts(body)
        ins = []
        for p in ords:
            n = int(p["anchor"].strip() or p["where"].split(":")[-1]) if False else p["n"]
            if n < 1 or n > len(spans):
                raise ExtractError(f"lost anchor: statement #{n} not found ({len(spans)} top-level statements)")
            pos = spans[n - 1][0] if p["where"].startswith("before") else spans[n - 1][1]
            ins.append((pos, p["text"]))
            tr.append({"kind": "ins-proof", "where": p["where"], "stmt": n})
        for pos, text in sorted(ins, key=lambda x: -x[0]):
            body = body[:pos] + "\n        " + text.rstrip() + "\n        " + body[pos:]
    for p in d.get("proof", []):
        if p in ords:
            continue
        anchor = p["anchor"].strip()
        rx, _ = _meta_regex(anchor)
        ms = list(re.finditer(rx, body))
        if len(ms) != 1:
            raise ExtractError(f"lost anchor: PROOF anchor occurs {len(ms)} times (needs exactly 1): {anchor[:80]!r}")
        idx = ms[0].start()
        anchor = ms[0].group(0)
        if p["where"] == "before":
            body = body[:idx] + p["text"].rstrip() + "\n        " + body[idx:]
        else:
            e = idx + len(anchor)
            body = body[:e] + "\n        " + p["text"].rstrip() + body[e:]
        tr.append({"kind": "ins-proof", "where": p["where"], "anchor": rustscan.norm_ws(anchor)[:100]})
    for lp in sorted(d.get("loops", []), key=lambda x: -x["n"]):
        body = _insert_loop_spec(body, lp["n"], lp["text"])
        tr.append({"kind": "ins-loop", "loop": lp["n"]})
    for nst in d.get("nested", []):
        it2 = rustscan.find_block(body, r"fn\s+%s\b" % re.escape(nst["fn"]), 1, len(body) - 1, 0, base_depth=1)
        if it2 is None:
            raise ExtractError(f"lost anchor: nested fn {nst['fn']} not found")
        nsig = it2.sig.rstrip()
        if nst.get("ret"):
            k2 = nsig.rfind("->")
            if k2 < 0:
                raise ExtractError(f"nested fn {nst['fn']} has no return type")
            nsig = nsig[:k2] + f"-> ({nst['ret']}: {nsig[k2 + 2:].strip()})"
        body = body[:it2.start] + nsig + "\n" + nst["spec"].rstrip() + "\n        " + body[it2.body_open:]
        tr.append({"kind": "ins-contract", "nested_fn": nst["fn"]})
    if d.get("ret"):
        mask = rustscan.code_mask(sig)
        k = -1
        par = 0
        for i, ch in enumerate(sig):
            if not mask[i]:
                continue
            if ch in "(<[":
                par += 1
            elif ch in ")]":
                par -= 1
            elif ch == ">" and i > 0 and sig[i - 1] != "-":
                par -= 1
            if sig.startswith("->", i) and par == 0:
                k = i
        if k < 0:
            raise ExtractError(f"RET given but fn {d['fn']} has no return type")
        rt = sig[k + 2:].strip()
        wh = ""
        mw = re.search(r"\bwhere\b", rt)
        if mw:
            rt, wh = rt[:mw.start()].strip(), " " + rt[mw.start():]
        sig = sig[:k] + f"-> ({d['ret']}: {rt})" + wh
    if d.get("spec"):
        tr.append({"kind": "ins-contract"})
    gen = sig + "\n" + (d.get("spec", "").rstrip() + "\n" if d.get("spec") else "") + body + "\n"
    return gen, rec


def _top_level_stmts(body):
    """spans (start, end) of the top-level statements of a fn body `{ ... }` (end is after the `;`)"""
    mask = rustscan.code_mask(body)
    assert body[0] == "{"
    spans = []
    depth = 0
    start = None
    i = 1
    n = len(body) - 1
    while i < n:
        ch = body[i]
        if start is None and not ch.isspace() and not (not mask[i]):
            start = i
        if start is None and not mask[i]:
            # comments between statements are skipped
            i += 1
            continue
        if mask[i]:
            if ch in "([{":
                depth += 1
            elif ch in ")]}":
                depth -= 1
                if ch == "}" and depth == 0 and start is not None:
                    # block-like statement (if/for/while/match/loop) ends here unless followed by else / method call / `;`
                    j = i + 1
                    while j < n and body[j].isspace():
                        j += 1
                    head = body[start:start + 6]
                    if re.match(r"(if|for|while|loop|match|unsafe)\b", head) and not body.startswith("else", j) and (j >= n or body[j] not in ".;?"):
                        spans.append((start, i + 1))
                        start = None
            elif ch == ";" and depth == 0 and start is not None:
                spans.append((start, i + 1))
                start = None
        i += 1
    if start is not None:
        spans.append((start, n))
    return spans


def _resplit(whole):
    mask = rustscan.code_mask(whole)
    par = 0
    for i, ch in enumerate(whole):
        if not mask[i]:
            continue
        if ch in "([":
            par += 1
        elif ch in ")]":
            par -= 1
        elif ch == "{" and par == 0:
            return whole[:i].rstrip(), whole[i:]
    raise ExtractError("cannot re-split signature/body")


def _insert_loop_spec(body, n, text):
    mask = rustscan.code_mask(body)
    cnt = 0
    for m in re.finditer(r"\b(while|for|loop)\b", body):
        if not mask[m.start()]:
            continue
        cnt += 1
        if cnt == n:
            j = m.end()
            par = 0
            while j < len(body):
                if mask[j]:
                    if body[j] in "([":
                        par += 1
                    elif body[j] in ")]":
                        par -= 1
                    elif body[j] == "{" and par == 0:
                        return body[:j] + "\n" + text.rstrip() + "\n        " + body[j:]
                j += 1
    raise ExtractError(f"lost anchor: loop #{n} not found")


def extract_type(repo, d):
    path = os.path.join(repo, d["file"])
    try:
        src = open(path, encoding="utf-8").read()
    except OSError:
        raise ExtractError(f"lost anchor: file {d['file']} missing")
    hdr = r"(?:pub(?:\([a-z:_ ]+\))?\s+)?(?:struct|enum)\s+%s\b" % re.escape(d["name"])
    try:
        it = rustscan.find_block(src, hdr)
    except ValueError as e:
        raise ExtractError(str(e))
    if it is None:
        # tuple struct / type alias: one line ending in `;`
        scope_lo, scope_hi = 0, len(src)
        if d.get("impl"):
            # an associated const: looked up inside the one impl block whose header matches
            blks = rustscan.find_block(src, d["impl"] + r"(?=\s*(\{|where\b))", all_matches=True)
            if len(blks) != 1:
                raise ExtractError(f"lost anchor: {len(blks)} items match /{d['impl']}/")
            scope_lo, scope_hi = blks[0].body_open, blks[0].body_close
        m = [x for x in re.finditer(r"^[ \t]*(?:pub(?:\([a-z:_ ]+\))?\s+)?(?:struct|type|const)\s+%s\b[^;{]*;" % re.escape(d["name"]), src, re.M)
             if scope_lo <= x.start() < scope_hi]
        if len(m) != 1:
            raise ExtractError(f"lost anchor: type {d['name']} not found in {d['file']}")
        text = m[0].group(0).strip()
        tr = []
        if d.get("vis") == "pub":
            text = re.sub(r"^(pub(\([a-z:_ ]+\))?\s+)?", "pub ", text)
            text = re.sub(r"\((?!pub)", "(pub ", text, count=1) if text.startswith("pub struct") else text
            tr.append({"kind": "vis", "what": "item and fields made pub"})
        rec = {"file": d["file"], "type": d["name"], "sha256": common.sha256_text(m[0].group(0)), "transformations": tr}
        return text + "\n", rec, []
    text, dropped = rustscan.strip_attrs_and_docs(it.text)
    text = re.sub(r"(?m)^\s*//[^\n]*\n", "", text)   # plain comments inside the type definition
    derives = [l for l in _preceding_attr_lines(src, it.start) if l.startswith("#[derive")]
    tr = [{"kind": "drop-attr", "dropped": derives + dropped}]
    keep = [x for x in d.get("derive", "").split(",") if x]
    if keep:
        have = set(re.findall(r"\w+", " ".join(x[len("#[derive"):] for x in derives)))
        missing = [k for k in keep if k not in have]
        if missing:
            raise ExtractError(f"lost anchor: type {d['name']} no longer derives {missing}")
        tr.append({"kind": "keep-derive", "kept": keep})
    if d.get("vis") == "pub":
        text = _widen_vis(text.lstrip())
        tr.append({"kind": "vis", "what": "item and all fields made pub (single-file module)"})
    if keep:
        text = "#[derive(" + ", ".join(keep) + ")]\n" + text
    if d.get("pre"):
        # Verus-only attributes (e.g. #[verifier::reject_recursive_types(T)]) in front of the copied definition
        if not re.fullmatch(r"(\s*#\[verifier::[a-z_]+\([\w, ]*\)\])+\s*", d["pre"]):
            raise ExtractError("TYPE pre= may only hold #[verifier::...] attributes")
        text = d["pre"].strip() + "\n" + text
        tr.append({"kind": "verus-attr", "added": d["pre"].strip()})
    rec = {"file": d["file"], "type": d["name"], "sha256": common.sha256_text(it.text), "transformations": tr}
    return text + "\n", rec, derives


def _widen_vis(text):
    text = re.sub(r"^\s*(pub(\([a-z:_ ]+\))?\s+)?(struct|enum)\b", r"pub \3", text, count=1)
    if not re.match(r"pub struct", text):
        return text
    o = text.index("{")
    mask = rustscan.code_mask(text)
    c = rustscan.match_close(text, mask, o)
    inner = text[o + 1:c]
    fields = _split_top(inner)
    outf = []
    for f in fields:
        if not f.strip():
            outf.append(f)
            continue
        outf.append(re.sub(r"^(\s*)(pub(\([a-z:_ ]+\))?\s+)?(\w+\s*:)", r"\1pub \4", f, count=1))
    return text[:o + 1] + ",".join(outf) + text[c:]


def parse_template(text):
    """-> list of segments: ("text", str) | ("extract", dict) | ("type", dict) | ("canary", str)"""
    lines = text.split("\n")
    segs = []
    buf = []
    i = 0
    while i < len(lines):
        ln = lines[i]
        st = ln.strip()
        if st.startswith("//@EXTRACT"):
            segs.append(("text", "\n".join(buf)))
            buf = []
            d = _parse_kv(st[len("//@EXTRACT"):])
            d.update({"subst": [], "proof": [], "loops": [], "closures": []})
            i += 1
            cur = None
            acc = []

            def flush():
                nonlocal cur, acc
                if cur is None:
                    return
                t = "\n".join(acc)
                k = cur[0]
                if k == "spec":
                    d["spec"] = t
                elif k == "subst_old":
                    d["subst"].append({"kind": cur[1], "old": t, "optional": len(cur) > 2 and cur[2]})
                elif k == "subst_new":
                    d["subst"][-1]["new"] = t
                elif k == "proof_anchor":
                    d["proof"].append({"where": cur[1], "anchor": t})
                elif k == "proof_text":
                    d["proof"][-1]["text"] = t
                elif k == "loop":
                    d["loops"].append({"n": cur[1], "text": t})
                elif k == "closure":
                    d["closures"].append({"n": cur[1], "text": t})
                elif k == "nested":
                    d.setdefault("nested", []).append({"fn": cur[1], "ret": cur[2], "spec": t})
                cur, acc = None, []
            while i < len(lines) and lines[i].strip() != "//@END":
                s2 = lines[i].strip()
                if s2.startswith("//@RET"):
                    flush()
                    d["ret"] = s2.split()[1]
                elif s2.startswith("//@SPEC"):
                    flush()
                    cur = ("spec",)
                elif s2.startswith("//@SUBST"):
                    flush()
                    # `//@SUBST? kind`: the wrapped std call may be absent (the code no longer uses it): then nothing is replaced
                    cur = ("subst_old", s2.split()[1], s2.split()[0].endswith("?"))
                elif s2.startswith("//@PROOF") and s2.split()[1] in ("before-stmt", "after-stmt"):
                    flush()
                    d["proof"].append({"where": s2.split()[1], "n": int(s2.split()[2]), "anchor": ""})
                    cur = ("proof_text",)
                elif s2.startswith("//@PROOF"):
                    flush()
                    cur = ("proof_anchor", s2.split()[1])
                elif s2.startswith("//@WITH"):
                    prev = cur
                    flush()
                    cur = ("subst_new",) if prev[0] == "subst_old" else ("proof_text",)
                elif s2.startswith("//@LOOP"):
                    flush()
                    cur = ("loop", int(s2.split()[1]))
                elif s2.startswith("//@NESTED"):
                    flush()
                    cur = ("nested", s2.split()[1], s2.split()[2] if len(s2.split()) > 2 else None)
                elif s2.startswith("//@CLOSURE"):
                    flush()
                    cur = ("closure", int(s2.split()[1]))
                else:
                    acc.append(lines[i])
                i += 1
            flush()
            segs.append(("extract", d))
        elif st.startswith("//@TYPE"):
            segs.append(("text", "\n".join(buf)))
            buf = []
            segs.append(("type", _parse_kv(st[len("//@TYPE"):])))
        elif st == "//@CANARY-BEGIN":
            segs.append(("text", "\n".join(buf)))
            buf = []
            i += 1
            c = []
            while lines[i].strip() != "//@CANARY-END":
                c.append(lines[i])
                i += 1
            segs.append(("canary", "\n".join(c)))
        else:
            buf.append(ln)
        i += 1
    segs.append(("text", "\n".join(buf)))
    return segs


class Unit:
    """One Verus file. obligations: one per extracted fn (label PROVED-U, carries the property) plus the
    template's own proof fns (helpers) plus one canary."""

    def __init__(self, name, prop, template, tier="quick", rlimit=None, desc=None, carries_lemmas=(), extra_args=()):
        self.name = name
        self.prop = prop
        self.template = os.path.join(ROOT, "verus", template)
        self.tier = tier
        self.rlimit = rlimit
        self.desc = desc or {}
        self.carries_lemmas = set(carries_lemmas)
        self.extra_args = list(extra_args)

    # ------------------------------------------------------------------ generation
    def generate(self, repo, with_canary):
        ttext = open(self.template, encoding="utf-8").read()
        segs = parse_template(ttext)
        out = []
        fns = []       # dicts: name, id, start_line, end_line, rec, pinned sha
        line = 1
        canary_span = None
        for kind, val in segs:
            if kind == "text":
                chunk = val + "\n"
            elif kind == "extract":
                gen, rec = extract_fn(repo, val, ttext, self.template)
                chunk = gen
                sofar = "".join(out)
                owner = None
                for mm in re.finditer(r"^impl(?:<[^>]*>)?\s+(\w+)[^\n]*\{\s*$", sofar, re.M):
                    if not re.search(r"^\}", sofar[mm.end():], re.M):
                        owner = mm.group(1)
                key = (owner + "::" if owner else "") + val["fn"]
                fns.append({"fn": val["fn"], "key": key, "id": f"{self.prop}.{val.get('id', key.replace('::', '.'))}.contract",
                            "start": line, "end": line + gen.count("\n"), "rec": rec, "pin": val.get("sha"),
                            "has_spec": bool(val.get("spec"))})
            elif kind == "type":
                gen, rec, derives = extract_type(repo, val)
                chunk = gen
                fns.append({"type": val["name"], "id": None, "start": line, "end": line + gen.count("\n"),
                            "rec": rec, "pin": val.get("sha")})
            elif kind == "canary":
                if not with_canary:
                    continue
                chunk = val + "\n"
                canary_span = (line, line + chunk.count("\n"))
            out.append(chunk)
            line += chunk.count("\n")
        return "".join(out), fns, canary_span

    def _verus(self, text, tag):
        d = os.path.join(common.CACHE, "verus")
        os.makedirs(d, exist_ok=True)
        path = os.path.join(d, f"{self.name}{tag}.rs")
        with open(path, "w") as f:
            f.write(text)
        cmd = ["verus", path, "--output-json", "--time", "--triggers-mode", "silent", "--num-threads", "8"]
        if self.rlimit:
            cmd += ["--rlimit", str(self.rlimit)]
        cmd += self.extra_args
        rc, out, secs, reason = common.run(cmd, cwd=d, timeout=1200)
        js = None
        k = out.find('\n{\n  "')
        if out.startswith("{"):
            k = -1
        try:
            js = json.loads(out[k + 1:]) if k >= -1 else None
        except json.JSONDecodeError:
            m = re.search(r"^\{\n.*^\}", out, re.S | re.M)
            try:
                js = json.loads(m.group(0)) if m else None
            except json.JSONDecodeError:
                js = None
        errs = []
        for m in re.finditer(r"^error(?:\[E\d+\])?: (.*?)\n\s*--> [^\n:]+:(\d+):(\d+)", out, re.M):
            errs.append({"msg": m.group(1).strip(), "line": int(m.group(2))})
        bare = [m.group(1) for m in re.finditer(r"^error(?:\[E\d+\])?: (.*)$", out, re.M)]
        return {"rc": rc, "out": out, "json": js, "errors": errs, "bare_errors": bare, "secs": secs,
                "killed": reason, "path": path, "cmd": " ".join(cmd)}

    # ------------------------------------------------------------------ run
    def run(self, repo, tier):
        res = []
        mk = lambda oid, label, verdict, reason, **kw: dict(
            {"id": oid, "label": label, "verdict": verdict, "reason": reason, "engine": "verus",
             "backend": "verus-z3", "carries": True, "canary": False, "n_checks": None, "seconds": None}, **kw)
        try:
            text, fns, _ = self.generate(repo, with_canary=False)
        except ExtractError as e:
            return [mk(f"{self.prop}.{self.name}.extract", "PROVED-U", "undecided", f"extractor stopped: {e}")]
        r = self._verus(text, "")
        js = r["json"]
        vr = (js or {}).get("verification-results", {})
        breakdown = {}
        try:
            for mod in js["times-ms"]["smt"]["smt-run-module-times"]:
                for fb in mod.get("function-breakdown", []):
                    parts = fb["function"].split("::")
                    breakdown[parts[-1]] = fb
                    if len(parts) >= 2:
                        breakdown["::".join(parts[-2:])] = fb
        except (KeyError, TypeError):
            pass
        tool_broken = js is None or vr.get("encountered-vir-error") or (
            not vr.get("success") and not r["errors"] and not breakdown)
        hard_errors = [e for e in r["bare_errors"] if not any(p in e for p in PROOF_FAILURE_PATTERNS)
                       and not e.startswith("aborting due to")]
        if tool_broken or (hard_errors and not vr.get("verified")):
            why = "; ".join(hard_errors[:3]) or r["out"][-400:]
            return [mk(f"{self.prop}.{self.name}.verus", "PROVED-U", "undecided",
                       f"verus did not reach verification (unsupported construct / type error / tool failure): {why[:500]}",
                       log_tail=r["out"][-2500:])]
        ex_names = set()
        total_verified = vr.get("verified", 0)
        for f in fns:
            if f.get("id") is None:
                continue
            ex_names.add(f["fn"])
            ex_names.add(f["key"])
            mine = [e for e in r["errors"] if f["start"] <= e["line"] <= f["end"]]
            fb = breakdown.get(f["key"]) or breakdown.get(f["fn"])
            secs = (fb or {}).get("time", 0) / 1000.0 if fb else 0.0
            pristine = f["pin"] is not None and f["rec"]["sha256"].startswith(f["pin"])
            # a function whose own text is unchanged is still "changed" when a constant / type definition the unit
            # extracts next to it changed (e.g. a flag constant): a failing proof is then a violation, not instability
            changed_types = [t["type"] for t in fns if t.get("type") and t.get("pin") and not t["rec"]["sha256"].startswith(t["pin"])]
            if changed_types:
                pristine = False
            common_kw = dict(fn=f"{f['rec']['file']}:{f.get('key') or f['fn']}", functions=[f"{f['rec']['file']}:{f.get('key') or f['fn']}"],
                             extraction=f["rec"], seconds=secs, desc=self.desc.get(f["key"], self.desc.get(f["fn"], "")),
                             rlimit=(fb or {}).get("rlimit"))
            if not f["has_spec"]:
                continue
            if mine or (fb is not None and not fb.get("success", True)):
                msgs = "; ".join(f"{e['msg']} (line {e['line'] - f['start'] + 1} of the extracted fn)" for e in mine) or "smt failure"
                # verus reached the SMT stage (no VIR/type error), so an error located in this function is a
                # failed proof obligation unless it is a resource limit
                proofy = bool(mine)
                rl = "rlimit" in msgs.lower() or "resource limit" in msgs.lower()
                if proofy and not rl and not pristine:
                    v, why = "violated", f"{msgs} — this obligation is discharged on the pinned source (sha {f['pin']}); " + (f"the extracted definitions of {', '.join(changed_types)} changed" if changed_types and f['pin'] and f['rec']['sha256'].startswith(f['pin']) else f"the function text changed (sha {f['rec']['sha256'][:16]})") + " and the verifier no longer accepts its contract"
                elif proofy and not rl and pristine and f["pin"]:
                    v, why = "undecided", f"proof failed on UNCHANGED function text (unstable proof, not a code change): {msgs}"
                elif proofy and not rl:
                    v, why = "violated", msgs
                else:
                    v, why = "undecided", msgs
                res.append(mk(f["id"], "PROVED-U", v, why, log_tail=_errs_text(r["out"], f), **common_kw))
            else:
                res.append(mk(f["id"], "PROVED-U", "discharged", "verified", **common_kw))
        # template's own proof fns / spec obligations: helpers
        for name, fb in breakdown.items():
            if name in ex_names or "::" in name:
                continue
            carries = name in self.carries_lemmas
            res.append(mk(f"{self.prop}.{self.name}.lemma.{name}", "PROVED-U",
                          "discharged" if fb.get("success") else "undecided",
                          "verified" if fb.get("success") else "lemma/spec obligation of the template failed",
                          carries=carries, seconds=fb.get("time", 0) / 1000.0, fn=name,
                          desc=self.desc.get(name, "template lemma / helper")))
        stray = [e for e in r["errors"] if not any(f["start"] <= e["line"] <= f["end"] for f in fns if f.get("id"))]
        if stray:
            res.append(mk(f"{self.prop}.{self.name}.template", "PROVED-U", "undecided",
                          "error outside extracted code: " + "; ".join(e["msg"] for e in stray[:3]), carries=False,
                          log_tail=r["out"][-2000:]))
        # canary: must fail inside the canary block
        try:
            ctext, _, span = self.generate(repo, with_canary=True)
            if span:
                c = self._verus(ctext, "_canary")
                hit = [e for e in c["errors"] if span[0] <= e["line"] <= span[1]
                       and any(p in e["msg"] for p in PROOF_FAILURE_PATTERNS)]
                res.append(mk(f"{self.prop}.{self.name}.canary", "PROVED-U",
                              "discharged" if hit else "undecided",
                              "canary refuted as expected" if hit else "canary NOT refuted: pipeline cannot be trusted",
                              carries=False, canary=True, seconds=c["secs"]))
        except ExtractError as e:
            res.append(mk(f"{self.prop}.{self.name}.canary", "PROVED-U", "undecided", str(e), carries=False, canary=True))
        assumptions = scan_assumptions(text)
        for x in res:
            x["assumptions"] = assumptions
            x.setdefault("tool_secs", r["secs"])
        return res


def _errs_text(out, f):
    k = out.find('\n{\n  "')
    return (out[:k] if k > 0 else out)[-2500:]


def scan_assumptions(text):
    out = []
    for m in re.finditer(r"#\[verifier::external_body\]\s*(?:pub(?:\([a-z]+\))?\s+)?(fn|struct)\s+(\w+)", text):
        out.append(f"verus external_body {m.group(1)} {m.group(2)} (trusted, body not verified)")
    for m in re.finditer(r"assume_specification\s*(?:<[^>]*>)?\s*\[\s*([^\]]+)\]", text):
        out.append(f"verus assume_specification for {rustscan.norm_ws(m.group(1))} (trusted std/dependency contract)")
    for m in re.finditer(r"\b(assume|admit)\s*\(", text):
        out.append(f"verus {m.group(1)}() present in unit")
    for m in re.finditer(r"impl\s+(?:vstd::)?(?:std_specs::)?(?:cmp::)?(\w+SpecImpl)(?:<[^>]*>)?\s+for\s+(\w+)", text):
        out.append(f"verus {m.group(1)} for {m.group(2)}: semantics of the derive stated, not checked")
    return sorted(set(out))


def pin(unit, repo):
    """Rewrite sha= on every //@EXTRACT line of the template with the hash of the current function text."""
    ttext = open(unit.template, encoding="utf-8").read()
    segs = parse_template(ttext)
    for kind, d in segs:
        if kind == "type":
            _, trec, _ = extract_type(repo, d)
            tsha = trec["sha256"][:16]
            new_lines = []
            for ln in ttext.split("\n"):
                kv = _parse_kv(ln[len("//@TYPE"):]) if ln.strip().startswith("//@TYPE") else None
                if kv and kv.get("name") == d["name"] and kv.get("file") == d["file"] and kv.get("impl") == d.get("impl"):
                    ln = re.sub(r"\s+sha=\w+", "", ln.rstrip()) + f" sha={tsha}"
                new_lines.append(ln)
            ttext = "\n".join(new_lines)
            continue
        if kind != "extract":
            continue
        _, rec = extract_fn(repo, d, ttext)
        sha = rec["sha256"][:16]
        # keep the pinned spelling: lets a later run recognise "only locals were renamed" (alpha_equivalent)
        src = open(os.path.join(repo, d["file"]), encoding="utf-8").read()
        pp = _pinned_path(unit.template, d)
        os.makedirs(os.path.dirname(pp), exist_ok=True)
        with open(pp, "w", encoding="utf-8") as f:
            f.write(_find_fn(src, d.get("impl"), d["fn"]).text)
        pat = re.compile(r"(//@EXTRACT[^\n]*\bfn=%s\b[^\n]*)" % re.escape(d["fn"]))

        def rep(m):
            line = re.sub(r"\s+sha=\w+", "", m.group(1))
            return line + f" sha={sha}"
        # only the line whose file= and impl= match
        new_lines = []
        for ln in ttext.split("\n"):
            kv = _parse_kv(ln[len("//@EXTRACT"):]) if ln.strip().startswith("//@EXTRACT") else None
            if kv and kv.get("fn") == d["fn"] and kv.get("file") == d["file"] and kv.get("impl") == d.get("impl"):
                ln = rep(pat.match(ln.strip())) if pat.match(ln.strip()) else ln
            new_lines.append(ln)
        ttext = "\n".join(new_lines)
    open(unit.template, "w").write(ttext)
