"""Orchestration: scratch tree -> Kani harnesses + Verus units -> verdicts -> evidence / replay / exit code."""
import json
import os
import re
import sys
import time

import common
import kani
from common import ROOT, REPO, log


def all_properties():
    d = os.path.join(ROOT, "props")
    return sorted(f[:-3] for f in os.listdir(d) if re.match(r"C\d+\.py$", f))


def _jobs():
    return max(2, min(common.NCPU, int(os.environ.get("VERIF_JOBS", common.NCPU))))


def check_property(pid, prop, tier, only=None, keep=False):
    t0 = time.time()
    seed = int(os.environ.get("VERIF_SEED", "0") or 0)
    results = []      # per obligation dicts
    notes = []
    all_h = prop.get("kani", [])
    harnesses = [h for h in all_h if (tier == "thorough" or h.tier == "quick") and (not h.twin or tier == "thorough") and not h.search_only]
    # quick tier: only the twins marked tier="quick" step in when Verus cannot decide (the larger ones are thorough-only)
    twins = [h for h in all_h if (h.twin and tier != "thorough" and h.tier == "quick") or h.search_only]
    units = [u for u in prop.get("verus", []) if tier == "thorough" or u.tier == "quick"]
    if only:
        keys = only.split(",")
        harnesses = [h for h in harnesses if any(k in h.name or k in h.obligation for k in keys)]
        units = [u for u in units if any(k in u.name for k in keys)]
    tree = None
    with common.Lock(os.path.join(common.SCRATCH_BASE, f"{pid}.lock")):
        try:
            # ---------------- Verus (reads /repo text directly, no scratch tree) ----------------
            for u in units:
                for r in u.run(REPO, tier):
                    r["engine"] = "verus"
                    results.append(r)
            # bounded Kani twins of Verus contracts: needed when Verus could not decide or reports a violation
            # (they execute the compiled code, whatever constructs it uses, and yield replayable inputs)
            if twins and any(r["verdict"] != "discharged" and not r.get("canary") for r in results):
                log(f"[{pid}] Verus did not discharge everything: running {len(twins)} bounded Kani twin(s)")
                harnesses = harnesses + [h for h in twins if not only or any(k in h.name for k in only.split(","))]
            # ---------------- Kani ----------------
            if harnesses:
                overlays = [os.path.join(ROOT, "kani", "_base"), os.path.join(ROOT, "kani", pid)]
                overlays += [os.path.join(ROOT, "kani", x) for x in prop.get("extra_overlays", [])]
                tree, hooks, missing = common.make_scratch(pid, overlays)
                if missing:
                    notes.append("harness files without a hook point in /repo: " + ", ".join(missing))
                results += _run_kani(pid, prop, tree, harnesses, tier)
            # counterexample searches that did not finish are not obligations
            dropped = [r for r in results if r.get("_h") is not None and r["_h"].search_only and r["verdict"] == "undecided"]
            for r in dropped:
                notes.append(f"counterexample search {r['harness']} gave no answer within its time-out ({r['reason'][:80]})")
            results = [r for r in results if r not in dropped]
            # as-compiled re-checks of a contract that Verus proved in this very run: a time-out is not a verdict
            proved_now = {r["id"] for r in results if r.get("engine") == "verus" and r["verdict"] == "discharged"}
            unanswered = [r for r in results if r.get("_h") is not None and r["_h"].backed_by in proved_now
                          and r["verdict"] == "undecided" and re.search(r"timed out|time-out|no result file", r["reason"])]
            for r in unanswered:
                notes.append(f"as-compiled re-check {r['harness']} gave no answer within its time-out; its contract is carried by the "
                             f"Verus obligation {r['_h'].backed_by}, discharged in this run")
            results = [r for r in results if r not in unanswered]
            rc = _report(pid, prop, tier, seed, results, notes, t0, tree)
        finally:
            if not keep:
                common.remove_scratch(pid)
    return rc


def _run_kani(pid, prop, tree, harnesses, tier):
    out = []
    by_crate = {}
    for h in harnesses:
        by_crate.setdefault(h.crate, []).append(h)
    for crate, hs in by_crate.items():
        tmo = max((h.timeout or prop.get("timeout", 600)) for h in hs)
        if tier == "thorough":
            tmo *= prop.get("thorough_timeout_factor", 3)
        res, info = kani.run_property(pid, tree, hs, _jobs(), tmo, extra_args=prop.get("kani_args", ()))
        pending = []
        for h in hs:
            r = res.get(h.name)
            verdict, reason, failed = kani.classify(h, r)
            if r is None and info["compile_failed"]:
                reason = "build failed: " + _first_error(info["log_tail"])
            entry = _entry(h, verdict, reason, failed, r)
            if verdict == "undecided" and not info["compile_failed"] and not h.search_only:
                pending.append((h, entry))
            out.append(entry)
        # undecided because of a time-out / back-end crash: one sequential retry, alone on the
        # machine, other solver, doubled time-out (an overloaded host must not look like a verdict)
        # (at most 4 retries per run: dozens of sequential double-length retries would take hours and say nothing new)
        retryable = [(h, e) for h, e in pending if re.search(r"timed out|CBMC failed|no check list|no result file|banner", e["reason"])]
        if len(retryable) > 4:
            log(f"[{pid}] {len(retryable)} harnesses without an answer: not retried")
            retryable = []
        for h, entry in retryable:
            alt = {"z3": "cadical", "cvc5": "cadical", "cadical": "kissat", "kissat": "cadical", None: "kissat"}[h.solver]
            log(f"[{pid}] retry {h.name} with solver {alt}")
            res2, info2 = kani.run_property(pid, tree, [h], 1, min(2 * tmo, tmo + 600),
                                            extra_args=list(prop.get("kani_args", ())), solver=alt)
            r2 = res2.get(h.name)
            v2, why2, failed2 = kani.classify(h, r2)
            if v2 != "undecided":
                e2 = _entry(h, v2, why2 + f" (retry, solver {alt})", failed2, r2)
                e2["backend"] = f"cbmc-{alt}"
                out[out.index(entry)] = e2
            else:
                entry["reason"] += f" | retry with {alt}: {why2}"
        for e in out:
            e.setdefault("build", {"secs": round(info["secs"], 1), "killed": info["killed"]})
            if e["verdict"] != "discharged":
                e["log_tail"] = info["log_tail"][-1500:] if e.get("no_result") else e.get("log_tail", "")
    return out


def _first_error(logtxt):
    m = re.search(r"^(error(\[E\d+\])?:.*(?:\n.*){0,6})", logtxt, re.M)
    return m.group(1)[:700] if m else logtxt[-500:]


def _entry(h, verdict, reason, failed, r):
    return {
        "id": h.obligation, "harness": h.name, "engine": "kani", "label": h.label,
        "bound": h.bound, "desc": h.desc, "carries": h.carries, "canary": h.canary,
        "verdict": verdict, "reason": reason,
        "failed_checks": [{"id": c["id"], "description": c["description"], "location": c["location"]}
                          for c in failed][:8],
        "n_checks": len(r["checks"]) if r else 0,
        "seconds": r["time_s"] if r else None,
        "backend": f"cbmc-{h.solver or 'cadical'}",
        "functions": list(h.functions), "no_result": r is None,
        "log_tail": (r["raw_tail"][-1200:] if r and verdict != "discharged" else ""),
        "_h": h,
    }


def _report(pid, prop, tier, seed, results, notes, t0, tree):
    known = [k for k in common.load_known_findings() if k["property"] == pid]
    violations, undecided, known_hits = [], [], []
    for r in results:
        if r["verdict"] == "violated":
            if not r.get("carries", True):
                r["verdict"] = "undecided"
                r["reason"] = "helper obligation failed (not derived from the property statement): " + r["reason"]
                undecided.append(r)
                continue
            def _same(k, r=r):
                if k["obligation"] != r["id"]:
                    return False
                if not k.get("failing"):
                    return True
                fc = r.get("failed_checks") or []
                return bool(fc) and all(k["failing"] in (c.get("description", "") + " " + c.get("location", "")) for c in fc)
            k = next((k for k in known if _same(k)), None)
            if k:
                known_hits.append((r, k))
            else:
                violations.append(r)
        elif r["verdict"] == "undecided":
            undecided.append(r)
    # replay files for new violations
    for r in violations:
        path = _write_replay(pid, r, tree)
        tail = "" if r.get("replay_has_input") else " no-failing-input-found"
        print(f"VIOLATION property={pid} replay={path}{tail}", flush=True)
        print(f"  obligation {r['id']} ({r['engine']}): {r['reason']}", flush=True)
        for c in r.get("failed_checks", [])[:3]:
            print(f"    failed: {c['description']} @ {c['location']}", flush=True)
    for r, k in known_hits:
        print(f"KNOWN-FINDING: property={pid} obligation={r['id']} {k['text']}", flush=True)
    for r in undecided:
        print(f"UNDECIDED {r['id']} ({r['engine']}): {r['reason'][:600]}", flush=True)
    _write_evidence(pid, prop, tier, seed, results, notes, t0, violations, undecided, known_hits)
    n_d = sum(1 for r in results if r["verdict"] == "discharged")
    print(f"[{pid}] tier={tier} obligations={len(results)} discharged={n_d} violated={len(violations)} "
          f"known={len(known_hits)} undecided={len(undecided)} wall={time.time()-t0:.0f}s", flush=True)
    if violations:
        return 1
    if undecided:
        return 2
    return 0


def _write_replay(pid, r, tree):
    os.makedirs(os.path.join(ROOT, "replays"), exist_ok=True)
    path = os.path.join(ROOT, "replays", f"{pid}.{re.sub(r'[^A-Za-z0-9_.-]', '_', r['id'])}.json")
    rep = {"property": pid, "obligation": r["id"], "engine": r["engine"], "harness": r.get("harness"),
           "failed_checks": r.get("failed_checks", []), "tool_output": r.get("log_tail", ""),
           "reason": r["reason"], "functions": r.get("functions", [])}
    test_src = None
    if r["engine"] == "kani" and tree and r.get("_h") is not None:
        test_src, secs = kani.playback(tree, r["_h"])
    elif r["engine"] == "verus" and r.get("twin") is not None:
        test_src = r["twin"]()
    if test_src:
        rep["playback_test"] = test_src
        rep["how_to_replay"] = f"./check replay {path}"
        r["replay_has_input"] = True
    else:
        rep["playback_test"] = "no-failing-input-found"
        rep["note"] = ("the verifier gives no counterexample for this obligation; the failed obligation "
                       "is named above and the verifier's output is attached")
    with open(path, "w") as f:
        json.dump(rep, f, indent=1)
    return path


def _write_evidence(pid, prop, tier, seed, results, notes, t0, violations, undecided, known_hits):
    carrying = [r for r in results if r.get("carries", True) and not r.get("canary")]
    proved = [r for r in carrying if r["label"] in ("PROVED-U", "PROVED-C")]
    bounded = [r for r in carrying if r["label"].startswith("BOUNDED")]
    helpers = [r for r in results if not r.get("carries", True) or r.get("canary")]
    by_backend = {}
    for r in results:
        b = by_backend.setdefault(r.get("backend", r["engine"]), {"obligations": 0, "discharged": 0, "solver_s": 0.0})
        b["obligations"] += 1
        b["discharged"] += r["verdict"] == "discharged"
        b["solver_s"] = round(b["solver_s"] + (r.get("seconds") or 0.0), 2)
    funcs = sorted({f for r in results for f in r.get("functions", [])})
    assumptions = list(prop.get("assumptions", []))
    for r in results:
        for a in r.get("assumptions", []):
            if a not in assumptions:
                assumptions.append(a)
    level = prop["level"]
    cov = {
        "obligations": len(proved) if level == "proof" else len(carrying),
        "discharged": sum(1 for r in (proved if level == "proof" else carrying) if r["verdict"] == "discharged"),
        "checker_cmd": f"./check {pid} --tier {tier}  (cargo kani 0.68 / CBMC 6.11 on a scratch copy of /repo; verus 0.2026.09.13 on functions extracted from /repo)",
        "trusted_base": prop.get("trusted_base", []),
        "explanation": prop.get("explanation", ""),
        "proved_unbounded_or_complete": {"obligations": len(proved),
                                         "discharged": sum(1 for r in proved if r["verdict"] == "discharged")},
        "bounded_stand_ins": {"obligations": len(bounded),
                              "discharged": sum(1 for r in bounded if r["verdict"] == "discharged"),
                              "list": [{"id": r["id"], "bound": r.get("bound")} for r in bounded]},
        "helper_and_canary_obligations": {"obligations": len(helpers),
                                          "discharged": sum(1 for r in helpers if r["verdict"] == "discharged")},
        "by_backend": by_backend,
        "functions_under_contract": funcs,
        "not_covered": prop.get("not_covered", []),
        "samples": [{"obligation": r["id"], "engine": r["engine"], "label": r["label"],
                     "harness_or_fn": r.get("harness") or r.get("fn"), "what": r.get("desc", ""),
                     "verdict": r["verdict"], "checks": r.get("n_checks"), "seconds": r.get("seconds"),
                     "bound": r.get("bound")} for r in results],
        "extraction": [r["extraction"] for r in results if r.get("extraction")],
        "known_findings_hit": [r["id"] for r, _ in known_hits],
        "undecided": [{"id": r["id"], "reason": r["reason"][:300]} for r in undecided],
        "notes": notes,
    }
    if level == "model_checking":
        # bounded model checking: CBMC reports program checks, not a state graph
        cov["evaluations"] = sum(r.get("n_checks") or 0 for r in results)
        cov["distinct_nontrivial"] = len([r for r in carrying if r["verdict"] == "discharged"])
        cov["rule"] = ("evaluations = CBMC checks (assertions, safety checks, covers) decided symbolically over the whole "
                       "bounded input space of each harness; distinct_nontrivial = discharged property-carrying obligations")
    ev = {"property_id": pid, "tier": tier, "seed": seed, "level": level, "coverage": cov,
          "assumptions": assumptions, "wall_s": round(time.time() - t0, 1), "violations": len(violations)}
    common.write_evidence(pid, ev)


def replay(path):
    rep = json.load(open(path))
    pid = rep["property"]
    print(f"replay: property={pid} obligation={rep['obligation']} engine={rep['engine']}")
    src = rep.get("playback_test")
    if not src or src == "no-failing-input-found":
        print("no failing input recorded; failed obligation:", rep["obligation"])
        print(rep.get("tool_output", "")[-3000:])
        return 1
    import importlib
    prop = importlib.import_module(pid).PROPERTY
    h = next((h for h in prop.get("kani", []) if h.name == rep.get("harness")), None)
    if h is None:
        print("harness no longer registered:", rep.get("harness"))
        return 2
    overlays = [os.path.join(ROOT, "kani", "_base"), os.path.join(ROOT, "kani", pid)]
    with common.Lock(os.path.join(common.SCRATCH_BASE, f"{pid}.lock")):
        try:
            tree, hooks, _ = common.make_scratch(pid, overlays)
            # append the generated test next to the harness it belongs to
            target = None
            for hp in hooks:
                txt = open(hp).read()
                if re.search(r"fn\s+%s\s*\(" % re.escape(h.name), txt):
                    target = hp
                    mod = re.search(r"mod\s+(c\d+\w*)\s*\{", txt)
                    break
            if target is None:
                print("harness source not found in overlay")
                return 2
            m = re.search(r"fn (kani_concrete_playback_\w+)", src)
            tname = m.group(1)
            inject = "\n    " + src.replace("\n", "\n    ") + "\n"
            txt = open(target).read()
            # put the test inside the module that defines the harness (before that module's closing brace; the file may
            # hold several harness modules, one per overlay)
            import rustscan
            fpos = re.search(r"fn\s+%s\s*\(" % re.escape(h.name), txt).start()
            mods = [m for m in re.finditer(r"(?m)^\s*(?:pub(?:\([a-z]+\))?\s+)?mod\s+\w+\s*\{", txt) if m.start() < fpos]
            mask = rustscan.code_mask(txt)
            idx = None
            for m in reversed(mods):
                close = rustscan.match_close(txt, mask, m.end() - 1)
                if close > fpos:
                    idx = close
                    break
            if idx is None:
                idx = txt.rstrip().rfind("}")
            open(target, "w").write(txt[:idx] + inject + txt[idx:])
            cmd = ["cargo", "kani", "playback", "-p", h.crate, "-Z", "concrete-playback", "--", tname]
            env = dict(common.ENV)
            env["CARGO_TARGET_DIR"] = common.KANI_TARGET + "-playback"
            rc, out, secs, reason = common.run(cmd, cwd=tree, timeout=3600, env=env)
            lines = [l for l in out.splitlines() if not l.lstrip().startswith(("Compiling", "Running `", "warning", "-->", "|", "=")) and len(l) < 600]
            print("\n".join(lines[-60:]))
            failed = re.search(r"test result: FAILED|panicked at|test exited abnormally|SIGABRT|SIGSEGV|memory allocation of \d+ bytes failed|has overflowed its stack", out) is not None
            print("REPLAY:", "violation reproduced on the real code" if failed else "not reproduced")
            return 1 if failed else 0
        finally:
            common.remove_scratch(pid)


def setup():
    """Pre-build the dependency graph of the three crates with kani-compiler into the shared target dir
    (registry crates are shared by every property's scratch tree) and warm Verus. Offline."""
    t0 = time.time()
    os.makedirs(common.KANI_TARGET, exist_ok=True)
    rc_all = 0
    with common.Lock(os.path.join(common.SCRATCH_BASE, "SETUP.lock")):
        try:
            tree, hooks, _ = common.make_scratch("SETUP", [os.path.join(ROOT, "kani", "_base")])
            for crate in ("scylla-cql-core", "scylla-cql", "scylla"):
                cmd = ["cargo", "kani", "-p", crate, "--target-dir", common.KANI_TARGET, "--only-codegen"] + kani.KANI_FLAGS
                rc, out, secs, reason = common.run(cmd, cwd=tree, timeout=7200)
                print(f"setup: kani build of {crate}: rc={rc} {secs:.0f}s", flush=True)
                if rc != 0:
                    print(out[-3000:])
                    rc_all = 1
        finally:
            common.remove_scratch("SETUP")
    rc, out, secs, reason = common.run(["verus", "--version"], timeout=120)
    print(out.strip().splitlines()[0] if out else "verus?", f"setup wall {time.time()-t0:.0f}s")
    return rc_all
