"""Shared plumbing for the /verif checks: paths, scratch tree, process running, evidence."""
import fcntl
import hashlib
import json
import os
import re
import shutil
import signal
import subprocess
import sys
import time

ROOT = os.path.dirname(os.path.dirname(os.path.abspath(__file__)))
REPO = os.environ.get("VERIF_REPO", "/repo")
CACHE = os.path.join(ROOT, ".cache")
KANI_TARGET = os.path.join(CACHE, "kani-target")
SCRATCH_BASE = os.path.join(os.environ.get("VERIF_SCRATCH", "/var/tmp"), "scylla-verif")
NCPU = os.cpu_count() or 4

ENV = dict(os.environ)
ENV.update({
    "CARGO_NET_OFFLINE": "true",
    "CARGO_TERM_COLOR": "never",
})
# cargo kani / verus must not inherit a toolchain override chosen for the repository's own build
for _k in ("RUSTUP_TOOLCHAIN", "RUSTFLAGS", "CARGO_TARGET_DIR", "RUSTC_WRAPPER"):
    ENV.pop(_k, None)


def log(*a):
    print(*a, file=sys.stderr, flush=True)


def sha256_text(s):
    return hashlib.sha256(s.encode()).hexdigest()


def sha256_file(p):
    with open(p, "rb") as f:
        return hashlib.sha256(f.read()).hexdigest()


class Lock:
    """flock-based mutex (scratch dir per property may be hit by concurrent runs)."""

    def __init__(self, path):
        os.makedirs(os.path.dirname(path), exist_ok=True)
        self.path = path
        self.fd = None

    def __enter__(self):
        self.fd = open(self.path, "w")
        fcntl.flock(self.fd, fcntl.LOCK_EX)
        return self

    def __exit__(self, *a):
        fcntl.flock(self.fd, fcntl.LOCK_UN)
        self.fd.close()


def hook_points(tree):
    """Every `#[cfg(kani)] mod verif_kani;` in the tree -> path of the module file it names."""
    out = []
    for crate in ("scylla-cql-core", "scylla-cql", "scylla"):
        base = os.path.join(tree, crate, "src")
        for dp, _dn, fns in os.walk(base):
            for fn in fns:
                if not fn.endswith(".rs") or fn == "verif_kani.rs":
                    continue
                p = os.path.join(dp, fn)
                with open(p, encoding="utf-8") as f:
                    txt = f.read()
                if re.search(r"#\[cfg\(kani\)\]\s*\n(?:\s*#\[rustfmt::skip\][^\n]*\n)?\s*mod verif_kani;", txt):
                    if fn in ("lib.rs", "mod.rs", "main.rs"):
                        out.append(os.path.join(dp, "verif_kani.rs"))
                    else:
                        out.append(os.path.join(dp, fn[:-3], "verif_kani.rs"))
    return sorted(out)


def make_scratch(prop, overlay_dirs):
    """rsync the current working tree of /repo into a fixed per-property scratch path and
    overlay the harness files. The path is fixed so that cargo fingerprints stay valid between
    runs (the tree itself is removed after every run)."""
    tree = os.path.join(SCRATCH_BASE, prop, "repo")
    os.makedirs(tree, exist_ok=True)
    subprocess.run(
        ["rsync", "-a", "--delete", "--exclude", "/target", "--exclude", "/.git",
         "--exclude", "verif_kani.rs", "--exclude", "/docs", "--exclude", "/assets",
         REPO + "/", tree + "/"], check=True, stdout=subprocess.DEVNULL, stderr=subprocess.DEVNULL)
    hooks = hook_points(tree)
    used = set()
    parts = {}
    for od in overlay_dirs:
        if not os.path.isdir(od):
            continue
        for dp, _dn, fns in sorted(os.walk(od)):
            for fn in sorted(fns):
                src = os.path.join(dp, fn)
                rel = os.path.relpath(src, od)
                parts.setdefault(os.path.join(tree, rel), []).append(src)
    # the same destination may be fed by several overlay dirs (`_base` spec functions used by the
    # in-place contracts + the property's harnesses): the pieces are concatenated in order.
    for dst, srcs in parts.items():
        os.makedirs(os.path.dirname(dst), exist_ok=True)
        text = "".join(open(x, encoding="utf-8").read() for x in srcs)
        if len(srcs) > 1:
            # inner attributes (`#![allow(..)]`) are only legal at the top of the file: hoist them
            lines = text.splitlines(keepends=True)
            inner = [l for l in lines if l.startswith("#![")]
            text = "".join(dict.fromkeys(inner)) + "".join(l for l in lines if not l.startswith("#!["))
        mt = max(os.stat(x).st_mtime for x in srcs)
        _write_if_changed(dst, text, mt)
        used.add(dst)
    for h in hooks:
        if h not in used:
            os.makedirs(os.path.dirname(h), exist_ok=True)
            _write_if_changed(h, "// no harness for this property at this hook point\n")
    missing = [u for u in used if u.endswith("verif_kani.rs") and u not in hooks]
    _stamp_by_content(tree, prop)
    return tree, hooks, missing


def _stamp_by_content(tree, prop):
    """cargo decides freshness by comparing source mtimes with the time of the last build. The build output outlives the
    scratch tree, so a file whose CONTENT changed while its mtime went backwards or stayed (a restored backup, `cp -p`,
    rsync -a of a reverted file) would be taken for unchanged and a stale artifact of other code would be verified.
    Here every file's mtime becomes a function of its content history: same content as at the previous run of this
    property => the mtime it had then; anything else => now."""
    import hashlib
    import json
    mpath = os.path.join(ROOT, ".cache", "kani-target", f"content-manifest-{prop}.json")
    try:
        with open(mpath) as f:
            man = json.load(f)
    except (OSError, ValueError):
        man = {}
    now = time.time()
    new = {}
    for dp, dn, fns in os.walk(tree):
        dn[:] = [d for d in dn if d not in ("target", ".git")]
        for fn in fns:
            path = os.path.join(dp, fn)
            if os.path.islink(path):
                continue
            rel = os.path.relpath(path, tree)
            try:
                with open(path, "rb") as f:
                    sha = hashlib.sha1(f.read()).hexdigest()
            except OSError:
                continue
            old = man.get(rel)
            mt = old["mtime"] if old and old["sha"] == sha else now
            new[rel] = {"sha": sha, "mtime": mt}
            try:
                os.utime(path, (mt, mt))
            except OSError:
                pass
    os.makedirs(os.path.dirname(mpath), exist_ok=True)
    with open(mpath + ".tmp", "w") as f:
        json.dump(new, f)
    os.replace(mpath + ".tmp", mpath)


def _write_if_changed(dst, text, mtime=946684800):
    if os.path.exists(dst):
        with open(dst) as f:
            if f.read() == text:
                return
    with open(dst, "w") as f:
        f.write(text)
    # stable mtime => stable cargo fingerprint across runs
    os.utime(dst, (mtime, mtime))


def remove_scratch(prop):
    shutil.rmtree(os.path.join(SCRATCH_BASE, prop), ignore_errors=True)


def run(cmd, cwd=None, timeout=None, env=None, mem_limit_gb=None):
    """Run a command in its own process group; kill the whole group on timeout or when the
    group's RSS exceeds mem_limit_gb. Returns (rc, output, seconds, reason)."""
    t0 = time.time()
    p = subprocess.Popen(cmd, cwd=cwd, env=env or ENV, stdout=subprocess.PIPE,
                         stderr=subprocess.STDOUT, text=True, start_new_session=True,
                         errors="replace")
    reason = None
    import threading
    buf = []

    def reader():
        for line in p.stdout:
            buf.append(line)
    th = threading.Thread(target=reader, daemon=True)
    th.start()
    while True:
        try:
            p.wait(timeout=2)
            break
        except subprocess.TimeoutExpired:
            pass
        if timeout and time.time() - t0 > timeout:
            reason = "timeout"
        elif mem_limit_gb and _group_rss_gb(p.pid) > mem_limit_gb:
            reason = "memory"
        if reason:
            try:
                os.killpg(p.pid, signal.SIGKILL)
            except ProcessLookupError:
                pass
            p.wait()
            break
    th.join(timeout=5)
    return p.returncode, "".join(buf), time.time() - t0, reason


def _group_rss_gb(pgid):
    tot = 0
    for d in os.listdir("/proc"):
        if not d.isdigit():
            continue
        try:
            with open(f"/proc/{d}/stat") as f:
                st = f.read()
            rp = st.rfind(")")
            fields = st[rp + 2:].split()
            if int(fields[2]) != pgid:  # pgrp
                continue
            tot += int(fields[21]) * 4096  # rss pages
        except (OSError, ValueError, IndexError):
            continue
    return tot / 2**30


def write_evidence(prop, data):
    os.makedirs(os.path.join(ROOT, "evidence"), exist_ok=True)
    # runs against a copy of the repository (seeded-change testing) must not overwrite the real evidence
    p = os.path.join(ROOT, "evidence", f"{prop}.json" if REPO == "/repo" else f"{prop}.seedrun.json")
    tmp = p + ".tmp"
    with open(tmp, "w") as f:
        json.dump(data, f, indent=1, sort_keys=False)
        f.write("\n")
    os.replace(tmp, p)
    return p


def load_known_findings():
    """known_findings.txt: lines `KNOWN-FINDING: property=<id> obligation=<name> [failing="<failed check text>"] <text>` and
    `fixed: property=<id> <commit> <text>` (the latter suppress nothing)."""
    out = []
    p = os.path.join(ROOT, "known_findings.txt")
    if not os.path.exists(p):
        return out
    for line in open(p):
        line = line.strip()
        m = re.match(r"KNOWN-FINDING:\s+property=(\S+)\s+obligation=(\S+)\s+(?:failing=\"([^\"]*)\"\s+)?(.*)", line)
        if m:
            # `failing="<text>"`: the finding is this failed check only - every failed check of the obligation must
            # mention it, otherwise the run is a different violation and is reported
            out.append({"property": m.group(1), "obligation": m.group(2), "failing": m.group(3), "text": m.group(4)})
    return out
