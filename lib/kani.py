"""Kani runner + output classifier.

One `cargo kani` invocation per (property, crate): all harnesses of the property are compiled once and
verified in parallel (`-j`), each writing its full check list into a per-harness result file which is
parsed here. The verdict of a harness is derived from the *list of checks*, never from Kani's
VERIFICATION banner (which prints FAILED for solver crashes, time-outs, ICEs ... as well).
"""
import json
import os
import re
import shutil

import common
from common import ENV, KANI_TARGET, log, run

KANI_FLAGS = ["-Z", "function-contracts", "-Z", "stubbing", "-Z", "unstable-options"]

# check classes whose FAILURE never means "the property is violated"
UNDECIDED_CLASSES = ("unwind", "unsupported_construct", "missing_definition", "reachability_check", "recursion")


class Harness:
    def __init__(self, name, obligation, label, desc, crate="scylla", carries=True, canary=False,
                 tier="quick", bound=None, solver=None, timeout=None, functions=(), twin=False, search_only=False,
                 needs_cover=False, unwind_is_violation=False, backed_by=None):
        self.name = name              # bare function name of the harness (unique, prefixed cNN_)
        self.obligation = obligation  # obligation id, e.g. C11.shard_of.contract
        self.label = label            # PROVED-C | BOUNDED
        self.desc = desc
        self.crate = crate
        self.carries = carries        # False: helper/lemma/self-check - failure => undecided
        self.canary = canary          # must FAIL (kani::should_panic)
        self.tier = tier              # "quick": both tiers, "thorough": thorough only
        self.bound = bound            # text describing the bound for BOUNDED
        self.solver = solver
        self.timeout = timeout
        self.functions = functions    # functions of /repo under contract in this harness
        self.search_only = search_only  # counterexample search for a contract Verus proves: run only when Verus fails; a time-out is not a verdict
        # concrete-input harness with a generous unwinding bound: reaching the bound (loop or recursion) IS the violation
        # (non-termination / input-controlled recursion depth), not a tool limit
        self.unwind_is_violation = unwind_is_violation
        self.needs_cover = needs_cover  # vacuity guard: at least one kani::cover! of the harness must be SATISFIED
        # id of the Verus obligation that proves the same contract on the extracted source: this harness re-checks it on the
        # compiled code; if it TIMES OUT while that Verus obligation is discharged in the same run, it is recorded as not
        # answered instead of making the property undecided (a failure of it still counts)
        self.backed_by = backed_by
        self.twin = twin              # bounded twin of a Verus contract: runs when Verus cannot decide / reports a violation, and in thorough


def parse_result_file(path):
    """-> dict(checks=[{n,id,status,description,location}], banner, time_s, raw_tail)"""
    try:
        txt = open(path, errors="replace").read()
    except OSError:
        return None
    checks = []
    for m in re.finditer(
            r"Check (\d+): ([^\n]+)\n\s*- Status: (\w+)\n\s*- Description: \"(.*?)\"\n(?:\s*- Location: (.*?)\n)?",
            txt, re.S):
        checks.append({"n": int(m.group(1)), "id": m.group(2), "status": m.group(3),
                       "description": m.group(4), "location": (m.group(5) or "").strip()})
    banner = None
    m = re.search(r"VERIFICATION:- (.*)", txt)
    if m:
        banner = m.group(1).strip()
    t = None
    m = re.search(r"Verification Time: ([0-9.]+)s", txt)
    if m:
        t = float(m.group(1))
    return {"checks": checks, "banner": banner, "time_s": t, "raw_tail": txt[-3000:], "raw": txt}


def check_class(cid):
    # e.g. routing::sharding::...::foo.assertion.1 -> assertion
    m = re.search(r"\.([a-z_\-]+)\.\d+$", cid)
    return m.group(1) if m else "unknown"


def classify(h, res):
    """-> (verdict, reason, failed_checks)   verdict in discharged | violated | undecided"""
    if res is None:
        return "undecided", "no result file (build error, ICE or harness not found)", []
    checks = res["checks"]
    banner = res["banner"] or ""
    if not checks:
        tail = res["raw_tail"].strip().splitlines()
        why = "; ".join(l.strip() for l in tail[-4:] if l.strip())
        return "undecided", f"no check list in tool output ({why})", []
    failed = [c for c in checks if c["status"] == "FAILURE"]
    undet = [c for c in checks if c["status"] in ("UNDETERMINED",)]
    unsat_cover = [c for c in checks if c["status"] == "UNSATISFIABLE"]
    hard = [c for c in failed if check_class(c["id"]) not in UNDECIDED_CLASSES
            and "unwinding assertion" not in c["description"]
            and "is not currently supported by Kani" not in c["description"]]
    soft = [c for c in failed if c not in hard]
    if h.unwind_is_violation:
        unw = [c for c in soft if check_class(c["id"]) in ("unwind", "recursion") or "unwinding assertion" in c["description"]]
        if unw:
            return "violated", "loop/recursion bound reached on a concrete input (does not terminate within the bound)", unw
    if h.canary:
        if hard:
            return "discharged", "canary refuted as expected", hard
        return "undecided", "canary obligation was NOT refuted: pipeline cannot be trusted", []
    if soft:
        # an unwinding assertion, an unsupported construct or a missing definition was reached: every other
        # failure of this harness may be a consequence of it => tool limit, never a verdict
        return "undecided", "unwinding/unsupported/missing definition reached: " + (soft[0]["description"] or soft[0]["id"]), soft
    if hard:
        return "violated", "failed checks", hard
    if undet:
        return "undecided", "undetermined checks", undet
    if unsat_cover:
        return "undecided", "vacuity guard: cover not satisfiable: " + unsat_cover[0]["description"], unsat_cover
    if h.needs_cover and not any(c["status"] == "SATISFIED" for c in checks):
        return "undecided", "vacuity guard: no cover statement of the harness is satisfied (the checked site is not reached)", []
    if banner.startswith("SUCCESSFUL"):
        return "discharged", "all checks passed", []
    return "undecided", "banner: " + banner, []


def run_property(prop, tree, harnesses, jobs, timeout_s, mem_gb=36, extra_args=(), solver=None):
    """Compile + verify `harnesses` (same crate) -> {harness name: parsed result or None}, build log."""
    crate = harnesses[0].crate
    outdir = os.path.join(KANI_TARGET, "result_output_dir")
    os.makedirs(outdir, exist_ok=True)
    names = {h.name for h in harnesses}
    for fn in os.listdir(outdir):
        if fn.rsplit("::", 1)[-1] in names:
            os.unlink(os.path.join(outdir, fn))
    cmd = ["cargo", "kani", "-p", crate, "--target-dir", KANI_TARGET] + KANI_FLAGS
    for h in sorted(names):
        cmd += ["--harness", h]
    cmd += ["-j", str(jobs), "--output-format", "terse", "--output-into-files",
            "--harness-timeout", f"{int(timeout_s)}s"]
    if solver:
        cmd += ["--solver", solver]
    cmd += list(extra_args)   # may end with `--cbmc-args ...`, which has to be last
    # whole invocation: build (cold: minutes) + ceil(n/jobs) rounds of timeout
    rounds = (len(names) + jobs - 1) // jobs
    overall = 1500 + rounds * (timeout_s + 30)
    rc, out, secs, reason = run(cmd, cwd=tree, timeout=overall, mem_limit_gb=mem_gb)
    _reap_orphan_solvers()
    results = {}
    for fn in os.listdir(outdir):
        bare = fn.rsplit("::", 1)[-1]
        if bare in names:
            r = parse_result_file(os.path.join(outdir, fn))
            if r is not None:
                r["full_name"] = fn
            results[bare] = r
    compile_failed = bool(re.search(r"^error(\[E\d+\])?:", out, re.M)) and not results
    return results, {"rc": rc, "secs": secs, "killed": reason, "compile_failed": compile_failed,
                     "log_tail": _strip_noise(out)[-6000:], "cmd": " ".join(cmd)}


def _reap_orphan_solvers():
    """CBMC's SMT back ends run `z3|cvc5 ... /tmp/smt2_dec_problem_*` as a child; when a harness times out the child is
    re-parented to init and keeps a core busy for hours. Kill those (and only those)."""
    for pid in os.listdir("/proc"):
        if not pid.isdigit():
            continue
        try:
            with open(f"/proc/{pid}/cmdline", "rb") as f:
                argv = f.read().split(b"\0")
            with open(f"/proc/{pid}/stat") as f:
                ppid = int(f.read().rsplit(")", 1)[1].split()[1])
        except (OSError, ValueError, IndexError):
            continue
        if ppid == 1 and argv and os.path.basename(argv[0]) in (b"z3", b"cvc5") and any(b"smt2_dec_problem" in a for a in argv):
            try:
                os.kill(int(pid), 9)
            except OSError:
                pass


def _strip_noise(out):
    keep = []
    skip = 0
    for line in out.splitlines():
        if "use of an unstable feature" in line or "register_tool" in line or "--force-warn unstable" in line:
            continue
        if re.match(r"^\s*(-->|\||=)\s", line) and "crate attribute" in line:
            continue
        keep.append(line)
    return "\n".join(keep)


def playback(tree, h, extra_args=()):
    """Re-run one failing harness with concrete playback; returns the generated unit-test text or None."""
    cmd = ["cargo", "kani", "-p", h.crate, "--target-dir", KANI_TARGET] + KANI_FLAGS + [
        "-Z", "concrete-playback", "--concrete-playback=print", "--harness", h.name] + list(extra_args)
    if h.solver:
        cmd += ["--solver", h.solver]
    rc, out, secs, reason = run(cmd, cwd=tree, timeout=(h.timeout or 600) + 600, mem_limit_gb=40)
    m = re.search(r"```\n?(.*?#\[test\].*?)```", out, re.S)
    if m:
        return m.group(1).strip(), secs
    m = re.search(r"(///[^\n]*\n)?(#\[test\]\s*\nfn kani_concrete_playback_\w+\(\) \{.*?\n\})", out, re.S)
    if m:
        return m.group(2).strip(), secs
    return None, secs
