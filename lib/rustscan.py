"""A small brace/paren/string/comment-aware scanner for Rust source text (no regex-only parsing).

Only what the extractor needs: find an item (fn / impl / struct / enum) by name at a given nesting level,
return the exact source span of its signature and body, strip attributes and doc comments that precede it.
"""
import re


def code_mask(src):
    """-> list[bool] of len(src): True where the character is code (not comment / string / char literal)."""
    n = len(src)
    mask = [True] * n
    i = 0
    while i < n:
        c = src[i]
        if c == "/" and i + 1 < n and src[i + 1] == "/":
            j = src.find("\n", i)
            j = n if j < 0 else j
            for k in range(i, j):
                mask[k] = False
            i = j
        elif c == "/" and i + 1 < n and src[i + 1] == "*":
            depth, j = 1, i + 2
            while j < n and depth:
                if src.startswith("/*", j):
                    depth += 1
                    j += 2
                elif src.startswith("*/", j):
                    depth -= 1
                    j += 2
                else:
                    j += 1
            for k in range(i, j):
                mask[k] = False
            i = j
        elif c == '"' or (c in "rb" and re.match(r'(?:b?r#*"|b")', src[i:i + 8]) and (i == 0 or not (src[i - 1].isalnum() or src[i - 1] == "_"))):
            m = re.match(r'(b?r(#*)")', src[i:i + 40])
            if m:  # raw string
                close = '"' + m.group(2)
                j = src.find(close, i + len(m.group(1)))
                j = n if j < 0 else j + len(close)
            else:
                j = i + (2 if c == "b" else 1)
                while j < n and src[j] != '"':
                    j += 2 if src[j] == "\\" else 1
                j += 1
            for k in range(i, min(j, n)):
                mask[k] = False
            i = j
        elif c == "'":
            # char literal or lifetime
            m = re.match(r"'(\\.[^']*|[^'\\])'", src[i:i + 12])
            if m:
                for k in range(i, i + m.end()):
                    mask[k] = False
                i += m.end()
            else:
                i += 1
        else:
            i += 1
    return mask


def match_close(src, mask, open_idx):
    """index of the bracket matching src[open_idx] (one of ([{ )"""
    pairs = {"(": ")", "[": "]", "{": "}"}
    o = src[open_idx]
    cl = pairs[o]
    depth = 0
    for i in range(open_idx, len(src)):
        if not mask[i]:
            continue
        if src[i] == o:
            depth += 1
        elif src[i] == cl:
            depth -= 1
            if depth == 0:
                return i
    raise ValueError("unbalanced bracket")


def depth_at(src, mask):
    """brace depth before each index"""
    d = 0
    out = []
    for i, c in enumerate(src):
        out.append(d)
        if mask[i]:
            if c == "{":
                d += 1
            elif c == "}":
                d -= 1
    return out


def norm_ws(s):
    return re.sub(r"\s+", " ", s).strip()


class Item:
    def __init__(self, src, start, sig_end, body_open, body_close):
        self.src = src
        self.start = start          # first char of visibility/`fn`/`impl`...
        self.body_open = body_open  # index of `{`
        self.body_close = body_close
        self.sig = src[start:body_open]
        self.body = src[body_open:body_close + 1]   # including braces
        self.text = src[start:body_close + 1]


def find_block(src, header_regex, lo=0, hi=None, want_depth=0, base_depth=None, all_matches=False):
    """Find an item whose header (text up to its `{`) matches header_regex, at brace depth want_depth
    relative to the span [lo,hi). Returns Item or None. Raises if ambiguous."""
    hi = len(src) if hi is None else hi
    mask = code_mask(src)
    depths = depth_at(src, mask)
    base = depths[lo] if base_depth is None else base_depth
    found = []
    for m in re.finditer(header_regex, src[lo:hi]):
        s = lo + m.start()
        if not mask[s] or depths[s] != base + want_depth:
            continue
        # body open: first `{` at code level, paren depth 0, after the match end
        j = lo + m.end()
        par = 0
        while j < hi:
            if mask[j]:
                if src[j] in "([":
                    par += 1
                elif src[j] in ")]":
                    par -= 1
                elif src[j] == "{" and par == 0:
                    break
                elif src[j] == ";" and par == 0:
                    j = None
                    break
            j += 1
        if j is None or j >= hi:
            continue
        close = match_close(src, mask, j)
        found.append(Item(src, s, j, j, close))
    if all_matches:
        return found
    if not found:
        return None
    if len(found) > 1:
        raise ValueError(f"ambiguous item for /{header_regex}/: {len(found)} matches")
    return found[0]


def strip_attrs_and_docs(text):
    """Remove outer attributes (#[...]) and doc comments from an item's text (used for type definitions)."""
    mask = code_mask(text)
    out = []
    i = 0
    n = len(text)
    dropped = []
    while i < n:
        if text.startswith("///", i) or text.startswith("//!", i):
            j = text.find("\n", i)
            j = n if j < 0 else j
            i = j
            continue
        if mask[i] and text[i] == "#" and i + 1 < n and text[i + 1] == "[":
            j = match_close(text, mask, i + 1)
            dropped.append(norm_ws(text[i:j + 1]))
            i = j + 1
            continue
        out.append(text[i])
        i += 1
    return "".join(out), dropped
