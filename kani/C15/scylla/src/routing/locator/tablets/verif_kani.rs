// C15 — bounded Kani twins of the Verus contracts (same post-conditions, executed on the compiled code).
// They run when the Verus unit cannot decide or reports a violation (to obtain a replayable input) and in
// the thorough tier.
#![allow(dead_code, unused_imports)]
mod c15 {
    use super::super::*;

    fn noop() {}
    /// HashMap's RandomState seeds itself from getrandom(2), which Kani cannot execute; the (empty) per-DC map of
    /// the test tablets is never looked at by the functions under contract.
    fn zero_random_state() -> std::hash::RandomState { unsafe { std::mem::zeroed() } }

    fn tab(first: i64, last: i64, unknown: bool) -> Tablet {
        Tablet {
            first_token: Token::new(first),
            last_token: Token::new(last),
            replicas: TabletReplicas::default(),
            failed: if unknown { Some(RawTabletReplicas { replicas: Vec::new() }) } else { None },
        }
    }

    /// any well-formed list of exactly N tablets: sorted, pairwise disjoint, first <= last.
    /// (The length is concrete - one harness per length - and the list is never dropped: a symbolic length puts every
    /// Vec operation under a symbolic guard and the drop glue of `Tablet` (Vec + HashMap) dominated the formula.)
    fn any_list<const N: usize>() -> (std::mem::ManuallyDrop<TableTablets>, [(i64, i64, bool); N], usize) {
        let n: usize = N;
        let mut t = std::mem::ManuallyDrop::new(TableTablets::new(TableSpec::borrowed("ks", "t")));
        let mut shape = [(0i64, 0i64, false); N];
        let mut prev_last: i64 = i64::MIN;
        let mut i = 0;
        while i < N {
            if i < n {
                let f: i64 = kani::any();
                let l: i64 = kani::any();
                let u: bool = kani::any();
                kani::assume(f > i64::MIN && f <= l);
                kani::assume(i == 0 || f > prev_last);
                prev_last = l;
                shape[i] = (f, l, u);
                t.tablet_list.push(tab(f, l, u));
            }
            i += 1;
        }
        t.has_unknown_replicas = kani::any();
        (t, shape, n)
    }

    fn ov(a: (i64, i64), b: (i64, i64)) -> bool { a.0 <= b.1 && b.0 <= a.1 }

    /// twin of C15.TableTablets.add_tablet.contract
    fn twin_add_tablet<const N: usize>() {
        let (mut t, shape, n) = any_list::<N>();
        let old_flag = t.has_unknown_replicas;
        let (f, l, u): (i64, i64, bool) = (kani::any(), kani::any(), kani::any());
        kani::assume(f > i64::MIN && f <= l);
        t.add_tablet(tab(f, l, u));
        let list = &t.tablet_list;
        // sorted + disjoint
        let mut i = 0;
        while i < N + 1 {
            if i < list.len() {
                assert!(list[i].first_token.value() <= list[i].last_token.value());
                if i + 1 < list.len() {
                    assert!(list[i].last_token.value() < list[i + 1].first_token.value(), "sorted and disjoint");
                }
            }
            i += 1;
        }
        // the new tablet is there; exactly the non-overlapping old ones survive
        let mut survivors = 0;
        let mut k = 0;
        while k < N {
            if k < n && !ov((shape[k].0, shape[k].1), (f, l)) {
                survivors += 1;
                let mut found = false;
                let mut j = 0;
                while j < N + 1 {
                    if j < list.len() && list[j].first_token.value() == shape[k].0 && list[j].last_token.value() == shape[k].1 {
                        found = true;
                    }
                    j += 1;
                }
                assert!(found, "a tablet that does not overlap the new one is kept");
            }
            k += 1;
        }
        assert!(list.len() == survivors + 1, "overlapped tablets are discarded, nothing else");
        let mut new_found = false;
        let mut j = 0;
        while j < N + 1 {
            if j < list.len() && list[j].first_token.value() == f && list[j].last_token.value() == l {
                new_found = true;
            }
            j += 1;
        }
        assert!(new_found, "the newly learnt tablet is present");
        assert!(t.has_unknown_replicas == (old_flag || u), "unknown-replica flag = old || new tablet unresolved");
    }

    macro_rules! twins {
        ($($name:ident = $f:ident, $n:literal;)*) => {$(
            #[kani::proof]
            #[kani::unwind(6)]
            #[kani::stub(std::rt::thread_cleanup, noop)]
            #[kani::stub(std::hash::RandomState::new, zero_random_state)]
            fn $name() {
                $f::<$n>();
            }
        )*};
    }
    twins! {
        c15_twin_add_tablet_n0 = twin_add_tablet, 0;
        // (add_tablet on a NON-empty list was tried with 1 and 2 tablets: draining drops `Tablet`s, whose drop glue reaches
        //  `Arc<Node>` and hashbrown's table destructor; CBMC cannot see that the replica collections are empty and did
        //  not finish in 20 min even with `Arc::drop_slow` stubbed - so the non-empty cases are covered by Verus only)
        c15_twin_tablet_for_token_n1 = twin_tablet_for_token, 1;
        c15_twin_tablet_for_token_n2 = twin_tablet_for_token, 2;
    }

    /// twin of C15.TableTablets.tablet_for_token.contract
    fn twin_tablet_for_token<const N: usize>() {
        let (t, shape, n) = any_list::<N>();
        let tok: i64 = kani::any();
        kani::assume(tok != i64::MIN);
        let r = t.tablet_for_token(Token::new(tok));
        let mut covered = false;
        let mut k = 0;
        while k < N {
            if k < n && shape[k].0 <= tok && tok <= shape[k].1 {
                covered = true;
                let x = r.expect("a covering tablet exists, so it must be returned");
                assert!(x.first_token.value() == shape[k].0 && x.last_token.value() == shape[k].1);
            }
            k += 1;
        }
        if !covered {
            assert!(r.is_none(), "no tablet covers the token: answered by nothing");
        }
    }
}
