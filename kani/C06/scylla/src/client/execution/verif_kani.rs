// C06 — the per-request retry session: the one-shot flags the policy proofs (verus/c06_retry.vrs) rely on live in the
// RetrySession object, so the execution loop must consult ONE session per request context. Contract of the accessor
// `ExecuteRequestContext::retry_session`: the first call asks the policy for a session, every later call returns that
// same object (same address, state written through the first reference still there) and never asks again.
#![allow(dead_code, unused_imports)]
mod c06x {
    use super::super::*;
    use crate::policies::retry::{RequestInfo, RetryDecision, RetryPolicy, RetrySession};
    use crate::observability::driver_tracing::RequestSpan;

    fn noop() {}

    static mut SESSIONS_CREATED: u32 = 0;

    struct MarkSession { consulted: u32 }
    impl RetrySession for MarkSession {
        fn decide_should_retry(&mut self, _i: RequestInfo) -> RetryDecision { self.consulted += 1; RetryDecision::DontRetry }
        fn reset(&mut self) { self.consulted += 1; }
    }
    #[derive(Debug)]
    struct CountingPolicy;
    impl RetryPolicy for CountingPolicy {
        fn new_session(&self) -> Box<dyn RetrySession> {
            unsafe { SESSIONS_CREATED += 1; }
            Box::new(MarkSession { consulted: 0 })
        }
    }

    /// `calls` consecutive uses of the accessor on one context (the loop in run_request_speculative_fiber uses it once
    /// per failed attempt). `reset` stands for "the session's state was changed through the returned reference".
    fn case(calls: u32) {
        let policy = CountingPolicy;
        let routing_info = load_balancing::RoutingInfo::default();
        // the accessor never touches the span; a tracing span cannot be built under CBMC at acceptable cost
        let span = std::mem::MaybeUninit::<RequestSpan>::uninit();
        let span_ref: &RequestSpan = unsafe { &*span.as_ptr() };
        let mut ctx = ExecuteRequestContext {
            retry_policy: &policy,
            retry_session: None,
            history_data: None,
            routing_info: &routing_info,
            request_span: span_ref,
        };
        let first = { let s = ctx.retry_session(); s.reset(); s as *mut dyn RetrySession as *mut u8 };
        assert!(unsafe { SESSIONS_CREATED } == 1, "the first use creates the session");
        let mut n = 1;
        while n < calls {
            let again = { let s = ctx.retry_session(); s.reset(); s as *mut dyn RetrySession as *mut u8 };
            assert!(again == first, "every later use of the accessor returns the session created by the first one");
            assert!(unsafe { SESSIONS_CREATED } == 1, "the policy is asked for a session once per request context");
            n += 1;
        }
        let m = unsafe { &*(first as *const MarkSession) };
        assert!(m.consulted == calls, "state written through earlier references is still in the session");
        kani::cover!(true);
        std::mem::forget(ctx);
    }

    #[kani::proof]
    #[kani::unwind(5)]
    #[kani::stub(std::rt::thread_cleanup, noop)]
    fn c06_retry_session_persists() { case(3); }
}
