// C06 — execution side: the per-request retry session (and with it the policies' one-shot flags) persists
// across the attempts of one request, so the attempt bounds proved for the policies apply to the driver.
#![allow(dead_code, unused_imports)]
mod c06 {
    use super::super::*;
    use crate::errors::DbError;
    use crate::policies::retry::{DefaultRetryPolicy, DowngradingConsistencyRetryPolicy};

    fn noop() {}

    /// two failures in a row within one request, default policy: the second Unavailable is NOT retried — which
    /// requires that `ExecuteRequestContext::retry_session()` hands out the SAME session both times.
    #[kani::proof]
    #[kani::unwind(4)]
    #[kani::stub(std::rt::thread_cleanup, noop)]
    fn c06_retry_session_persists_default() {
        let policy = DefaultRetryPolicy::new();
        let ri = RoutingInfo::default();
        // a disabled tracing span (never touched by retry_session); all-zero bytes are `Span::none()` + counter 0
        let span = std::mem::ManuallyDrop::new(unsafe { std::mem::zeroed::<RequestSpan>() });
        let mut ctx = ExecuteRequestContext {
            retry_policy: &policy,
            retry_session: None,
            history_data: None,
            routing_info: &ri,
            request_span: &*span,
        };
        let err = RequestAttemptError::DbError(
            DbError::Unavailable { consistency: Consistency::Quorum, required: kani::any(), alive: kani::any() },
            String::new(),
        );
        let idem: bool = kani::any();
        let d1 = ctx.retry_session().decide_should_retry(RequestInfo { error: &err, is_idempotent: idem, consistency: Consistency::Quorum });
        let d2 = ctx.retry_session().decide_should_retry(RequestInfo { error: &err, is_idempotent: idem, consistency: Consistency::Quorum });
        assert!(d1 == RetryDecision::RetryNextTarget(None));
        assert!(d2 == RetryDecision::DontRetry, "the one-shot flag set by the first failure is still set at the second");
        // same for the same-target one-shot (digest-only read timeout)
        let rt = RequestAttemptError::DbError(
            DbError::ReadTimeout { consistency: Consistency::Quorum, received: 2, required: 2, data_present: false },
            String::new(),
        );
        let d3 = ctx.retry_session().decide_should_retry(RequestInfo { error: &rt, is_idempotent: idem, consistency: Consistency::Quorum });
        let d4 = ctx.retry_session().decide_should_retry(RequestInfo { error: &rt, is_idempotent: idem, consistency: Consistency::Quorum });
        assert!(d3 == RetryDecision::RetrySameTarget(None) && d4 == RetryDecision::DontRetry, "at most one same-target retry per request");
    }

    /// canary
    #[kani::proof]
    #[kani::unwind(4)]
    #[kani::should_panic]
    #[kani::stub(std::rt::thread_cleanup, noop)]
    fn c06_canary_second_unavailable_retried() {
        let policy = DefaultRetryPolicy::new();
        let ri = RoutingInfo::default();
        // a disabled tracing span (never touched by retry_session); all-zero bytes are `Span::none()` + counter 0
        let span = std::mem::ManuallyDrop::new(unsafe { std::mem::zeroed::<RequestSpan>() });
        let mut ctx = ExecuteRequestContext { retry_policy: &policy, retry_session: None, history_data: None, routing_info: &ri, request_span: &*span };
        let err = RequestAttemptError::DbError(DbError::Unavailable { consistency: Consistency::Quorum, required: 2, alive: 1 }, String::new());
        let _ = ctx.retry_session().decide_should_retry(RequestInfo { error: &err, is_idempotent: false, consistency: Consistency::Quorum });
        let d2 = ctx.retry_session().decide_should_retry(RequestInfo { error: &err, is_idempotent: false, consistency: Consistency::Quorum });
        assert!(d2 == RetryDecision::RetryNextTarget(None));
    }
}
