// C08 — response body extensions (trace id, warnings): any flags x any short body => value or error, never a panic;
// well-formed => exact content.
#![allow(dead_code, unused_imports, static_mut_refs)]
mod c08ext {
    use super::super::*;

    fn noop() {}
    fn empty_string(_a: std::fmt::Arguments<'_>) -> String { String::new() }

    /// TRACING flag with every body of 0..=18 bytes (all truncation points around the 16-byte trace id)
    #[kani::proof]
    #[kani::unwind(20)]
    #[kani::stub(std::rt::thread_cleanup, noop)]
    #[kani::stub(alloc::fmt::format, empty_string)]
    fn c08_body_extensions_tracing() {
        let raw: [u8; 18] = kani::any();
        let n: usize = kani::any();
        kani::assume(n <= 18);
        let tracing: bool = kani::any();
        let flags: u8 = if tracing { flag::TRACING } else { 0 };
        let body = Bytes::copy_from_slice(&raw[..n]);
        match parse_response_body_extensions(flags, None, body) {
            Ok(r) => {
                if tracing {
                    assert!(n >= 16, "a trace id needs 16 bytes");
                    let id = r.trace_id.expect("trace id present");
                    assert!(id.as_bytes()[..] == raw[..16], "trace id = first 16 body bytes");
                    assert!(r.body[..] == raw[16..n], "remaining body starts right after the trace id");
                } else {
                    assert!(r.trace_id.is_none() && r.body[..] == raw[..n]);
                }
                assert!(r.warnings.is_empty() && r.custom_payload.is_none());
            }
            Err(_) => assert!(tracing && n < 16, "error only when the announced trace id is truncated"),
        }
    }

    /// quick-tier variants with a CONCRETE body length (bytes symbolic): a truncated trace id is an error, not a panic ...
    #[kani::proof]
    #[kani::unwind(20)]
    #[kani::stub(std::rt::thread_cleanup, noop)]
    #[kani::stub(alloc::fmt::format, empty_string)]
    fn c08_body_extensions_tracing_truncated() {
        let raw: [u8; 10] = kani::any();
        let r = std::mem::ManuallyDrop::new(parse_response_body_extensions(flag::TRACING, None, Bytes::copy_from_slice(&raw[..])));
        assert!(r.is_err(), "10 bytes cannot hold a 16-byte trace id: error");
    }
    /// ... and a body holding exactly the trace id plus two bytes decodes to exactly that
    #[kani::proof]
    #[kani::unwind(20)]
    #[kani::stub(std::rt::thread_cleanup, noop)]
    #[kani::stub(alloc::fmt::format, empty_string)]
    fn c08_body_extensions_tracing_exact() {
        let raw: [u8; 18] = kani::any();
        match parse_response_body_extensions(flag::TRACING, None, Bytes::copy_from_slice(&raw[..])) {
            Ok(r) => {
                let id = r.trace_id.expect("trace id present");
                assert!(id.as_bytes()[..] == raw[..16], "trace id = first 16 body bytes");
                assert!(r.body[..] == raw[16..], "remaining body starts right after the trace id");
            }
            Err(_) => assert!(false, "a complete trace id decodes"),
        }
    }

    /// COMPRESSION flag without negotiated compression is an error (never a panic), whatever the body
    #[kani::proof]
    #[kani::unwind(8)]
    #[kani::stub(std::rt::thread_cleanup, noop)]
    #[kani::stub(alloc::fmt::format, empty_string)]
    fn c08_body_extensions_compression_not_negotiated() {
        let raw: [u8; 4] = kani::any();
        let n: usize = kani::any();
        kani::assume(n <= 4);
        let other: u8 = kani::any();
        let flags = (other & flag::TRACING) | flag::COMPRESSION;
        assert!(parse_response_body_extensions(flags, None, Bytes::copy_from_slice(&raw[..n])).is_err());
    }
    // ---- frame header: the announced body length must not make the driver reserve memory before the bytes arrive
    static mut INPUT_LEN: usize = 0;
    /// contract of the allocation primitive (see result/verif_kani.rs): elements reserved <= bytes of input
    fn with_capacity_in_proportion<T>(n: usize) -> Vec<T> {
        assert!(n <= unsafe { INPUT_LEN }, "Vec::with_capacity(n): n elements reserved for an input of fewer than n bytes");
        Vec::new()
    }
    /// a 9-byte RESULT frame header announcing a 256 MiB body, then end of stream: the read fails with an error, and no
    /// reservation exceeds what was received
    #[kani::proof]
    #[kani::unwind(12)]
    #[kani::stub(std::rt::thread_cleanup, noop)]
    #[kani::stub(alloc::fmt::format, empty_string)]
    #[kani::stub(std::vec::Vec::with_capacity, with_capacity_in_proportion)]
    fn c08_frame_header_length_alloc() {
        use std::future::Future;
        use std::task::{Context, Poll, Waker};
        static RAW: [u8; 9] = [0x84, 0x00, 0x00, 0x01, 0x08, 0x10, 0x00, 0x00, 0x00];
        unsafe { INPUT_LEN = 9 };
        let mut reader = &RAW[..];
        let fut = std::pin::pin!(read_response_frame(&mut reader));
        let mut cx = Context::from_waker(Waker::noop());
        match fut.poll(&mut cx) {
            Poll::Ready(r) => assert!(std::mem::ManuallyDrop::new(r).is_err(), "a truncated frame is an error"),
            Poll::Pending => assert!(false, "a slice reader never suspends"),
        }
    }
    /// contract of the allocation primitive behind `vec![elem; n]`, as above: elements reserved <= bytes of input
    fn from_elem_in_proportion<T: Clone>(_elem: T, n: usize) -> Vec<T> {
        if n == 0 {
            return Vec::new();
        }
        kani::cover!(true, "a non-empty vec![_; n] is reached");
        assert!(n <= 64, "vec![_; n]: n elements allocated for an input of fewer than n bytes");
        kani::assume(false);
        Vec::new()
    }
    /// an LZ4 body whose 4-byte prefix announces 2 GiB of uncompressed data, followed by one byte
    #[kani::proof]
    #[kani::unwind(8)]
    #[kani::stub(std::rt::thread_cleanup, noop)]
    #[kani::stub(alloc::fmt::format, empty_string)]
    #[kani::stub(std::vec::from_elem, from_elem_in_proportion)]
    fn c08_lz4_uncompressed_len_alloc() {
        static RAW: [u8; 5] = [0x7f, 0xff, 0xff, 0xff, 0x00];
        let _r = std::mem::ManuallyDrop::new(decompress(&RAW[..], Compression::Lz4));
    }
    /// a Snappy body whose length header (varint) announces 2 GiB - 1 of uncompressed data, followed by one byte
    #[kani::proof]
    #[kani::unwind(8)]
    #[kani::stub(std::rt::thread_cleanup, noop)]
    #[kani::stub(alloc::fmt::format, empty_string)]
    #[kani::stub(std::vec::from_elem, from_elem_in_proportion)]
    fn c08_snappy_uncompressed_len_alloc() {
        static RAW: [u8; 6] = [0xff, 0xff, 0xff, 0xff, 0x07, 0x00];
        let _r = std::mem::ManuallyDrop::new(decompress(&RAW[..], Compression::Snappy));
    }
}
