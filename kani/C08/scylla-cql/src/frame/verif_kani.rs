// C08 — response body extensions (trace id, warnings): any flags x any short body => value or error, never a panic;
// well-formed => exact content.
#![allow(dead_code, unused_imports)]
mod c08ext {
    use super::super::*;

    fn noop() {}
    fn empty_string(_a: std::fmt::Arguments<'_>) -> String { String::new() }

    /// TRACING flag with every body of 0..=18 bytes (all truncation points around the 16-byte trace id)
    #[kani::proof]
    #[kani::unwind(20)]
    #[kani::stub(std::rt::thread_cleanup, noop)]
    #[kani::stub(alloc::fmt::format, empty_string)]
    fn c08_body_extensions_tracing() {
        let raw: [u8; 18] = kani::any();
        let n: usize = kani::any();
        kani::assume(n <= 18);
        let tracing: bool = kani::any();
        let flags: u8 = if tracing { flag::TRACING } else { 0 };
        let body = Bytes::copy_from_slice(&raw[..n]);
        match parse_response_body_extensions(flags, None, body) {
            Ok(r) => {
                if tracing {
                    assert!(n >= 16, "a trace id needs 16 bytes");
                    let id = r.trace_id.expect("trace id present");
                    assert!(id.as_bytes()[..] == raw[..16], "trace id = first 16 body bytes");
                    assert!(r.body[..] == raw[16..n], "remaining body starts right after the trace id");
                } else {
                    assert!(r.trace_id.is_none() && r.body[..] == raw[..n]);
                }
                assert!(r.warnings.is_empty() && r.custom_payload.is_none());
            }
            Err(_) => assert!(tracing && n < 16, "error only when the announced trace id is truncated"),
        }
    }

    /// COMPRESSION flag without negotiated compression is an error (never a panic), whatever the body
    #[kani::proof]
    #[kani::unwind(8)]
    #[kani::stub(std::rt::thread_cleanup, noop)]
    #[kani::stub(alloc::fmt::format, empty_string)]
    fn c08_body_extensions_compression_not_negotiated() {
        let raw: [u8; 4] = kani::any();
        let n: usize = kani::any();
        kani::assume(n <= 4);
        let other: u8 = kani::any();
        let flags = (other & flag::TRACING) | flag::COMPRESSION;
        assert!(parse_response_body_extensions(flags, None, Bytes::copy_from_slice(&raw[..n])).is_err());
    }
}
