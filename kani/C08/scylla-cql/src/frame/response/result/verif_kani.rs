// C08 — result metadata / type parsers: memory is reserved in proportion to the input, and type nesting is bounded.
//
// Contract of the allocation primitive, checked (not assumed) at EVERY `Vec::with_capacity(n)` call reached by a
// decoder under test: the number of elements reserved never exceeds the number of input bytes (every element of a
// decoded sequence consumes at least one byte of input). `Vec::with_capacity` is stubbed by a function that checks this
// and returns an empty vector (pushes then grow it as usual). (The bound is the constant MAX_INPUT >= every harness's
// input length: a `static mut` holding the exact length made CBMC stop propagating the constant input bytes.)
#![allow(dead_code, unused_imports, static_mut_refs)]
mod c08res {
    use super::super::*;
    use std::mem::ManuallyDrop as MD;

    fn noop() {}
    fn empty_string(_a: std::fmt::Arguments<'_>) -> String { String::new() }

    /// every input of these harnesses is at most MAX_INPUT bytes long
    const MAX_INPUT: usize = 16;
    /// The obligation of an allocation harness ENDS at the first non-empty reservation it reaches: what follows in the
    /// parser is an error path whose values (errors holding `Arc`s, niche-encoded discriminants) CBMC cannot keep
    /// concrete, and which is not what these obligations are about. `cover!` guards against a vacuous pass.
    fn with_capacity_in_proportion<T>(n: usize) -> Vec<T> {
        if n == 0 {
            return Vec::new();
        }
        kani::cover!(true, "a non-empty reservation is reached");
        assert!(n <= MAX_INPUT, "Vec::with_capacity(n): n elements reserved for an input of fewer than n bytes");
        kani::assume(false);
        Vec::new()
    }

    // (A symbolic count was tried first: the parsers' deeply nested error enums make CBMC's symbolic execution of any
    //  non-constant path take > 25 min per harness - profiled: exponential `pointer_offset_bits` over nested unions. The
    //  counts are therefore the two field-aware mutations the property names: the largest value and a value just above the input size; each frame has two more bytes behind the count,
    //  so that the repaired code reserves a non-zero number of elements too.)
    const fn pad<const N: usize>(b: [u8; N]) -> [u8; 96] {
        let mut out = [0u8; 96];
        let mut i = 0;
        while i < N {
            out[i] = b[i];
            i += 1;
        }
        out
    }
    macro_rules! alloc_case {
        ($name:ident, $unwind:expr, $len:expr, $bytes:expr, |$s:ident| $call:expr) => {
            #[kani::proof]
            #[kani::unwind($unwind)]
            #[kani::stub(std::rt::thread_cleanup, noop)]
            #[kani::stub(alloc::fmt::format, empty_string)]
            #[kani::stub(std::vec::Vec::with_capacity, with_capacity_in_proportion)]
            fn $name() {
                // (the frame is the first $len bytes of a 96-byte constant: CBMC propagates reads from a constant array only
                //  when it is larger than its field-sensitivity limit of 64 elements)
                static RAW: [u8; 96] = pad($bytes);
                assert!($len <= MAX_INPUT);
                let mut $s = &RAW[..$len];
                let _r = MD::new($call);
            }
        };
    }
    // PREPARED metadata = <flags><column count><pk count>...: column count i32::MAX / 17, nothing behind it
    alloc_case!(c08_prepared_metadata_col_count_max, 3, 14, [0, 0, 0, 0, 0x7f, 0xff, 0xff, 0xff, 0, 0, 0, 0, 0, 0], |s| deser_prepared_metadata(&mut s));
    alloc_case!(c08_prepared_metadata_col_count_17, 3, 14, [0, 0, 0, 0, 0, 0, 0, 17, 0, 0, 0, 0, 0, 0], |s| deser_prepared_metadata(&mut s));
    // ... partition-key count i32::MAX / 17, nothing behind it
    alloc_case!(c08_prepared_metadata_pk_count_max, 3, 14, [0, 0, 0, 0, 0, 0, 0, 0, 0x7f, 0xff, 0xff, 0xff, 0, 0], |s| deser_prepared_metadata(&mut s));
    alloc_case!(c08_prepared_metadata_pk_count_17, 3, 14, [0, 0, 0, 0, 0, 0, 0, 0, 0, 0, 0, 17, 0, 0], |s| deser_prepared_metadata(&mut s));
    // RESULT/Rows metadata = <flags><column count>...: column count i32::MAX, nothing behind it
    alloc_case!(c08_result_metadata_col_count_max, 3, 10, [0, 0, 0, 0, 0x7f, 0xff, 0xff, 0xff, 0, 0], |s| deser_result_metadata(&mut s, &ProtocolFeatures::default()));
    // a tuple type announcing 65535 / 17 fields, nothing behind it
    alloc_case!(c08_type_tuple_count_max, 3, 6, [0x00, 0x31, 0xff, 0xff, 0, 9], |s| deser_type_owned(&mut s));
    alloc_case!(c08_type_tuple_count_17, 3, 6, [0x00, 0x31, 0x00, 0x11, 0, 9], |s| deser_type_owned(&mut s));
    // a UDT type announcing 65535 fields, nothing behind it
    alloc_case!(c08_type_udt_field_count_max, 3, 12, [0x00, 0x30, 0, 1, b'k', 0, 1, b't', 0xff, 0xff, 0, 0], |s| deser_type_owned(&mut s));

    /// bounded stack: a column type nested 160 levels deep (322 bytes: 160 x <list> then <int>) is refused with an
    /// error instead of being decoded by 160 nested calls - nesting is attacker-controlled at 2 bytes per level.
    #[kani::proof]
    #[kani::unwind(164)]
    #[kani::stub(std::rt::thread_cleanup, noop)]
    #[kani::stub(alloc::fmt::format, empty_string)]
    fn c08_type_nesting_bounded() {
        let mut s = &NESTED[..];
        let r = MD::new(deser_type_owned(&mut s));
        assert!(r.is_err(), "a type nested 160 levels deep must be refused (recursion depth is input-controlled)");
    }
    const DEPTH: usize = 160;
    /// (a constant initialiser: CBMC propagates reads from it; a 2 kB array filled by a loop is not propagated)
    static NESTED: [u8; 2 * DEPTH + 2] = {
        let mut raw = [0u8; 2 * DEPTH + 2];
        let mut i = 0;
        while i < DEPTH {
            raw[2 * i + 1] = 0x20;
            i += 1;
        }
        raw[2 * DEPTH + 1] = 0x09;
        raw
    };

    /// the same through TUPLE types (4 bytes per level: <tuple><1 field>): every recursive branch has to count the depth
    #[kani::proof]
    #[kani::unwind(164)]
    #[kani::stub(std::rt::thread_cleanup, noop)]
    #[kani::stub(alloc::fmt::format, empty_string)]
    fn c08_type_nesting_bounded_tuple() {
        let mut s = &NESTED_TUPLE[..];
        let r = MD::new(deser_type_owned(&mut s));
        assert!(r.is_err(), "a tuple type nested 160 levels deep must be refused (recursion depth is input-controlled)");
    }
    static NESTED_TUPLE: [u8; 4 * DEPTH + 2] = {
        let mut raw = [0u8; 4 * DEPTH + 2];
        let mut i = 0;
        while i < DEPTH {
            raw[4 * i + 1] = 0x31;
            raw[4 * i + 3] = 0x01;
            i += 1;
        }
        raw[4 * DEPTH + 1] = 0x09;
        raw
    };

    /// ... while ordinary nesting keeps decoding: list<map<int, set<text>>>
    #[kani::proof]
    #[kani::unwind(8)]
    #[kani::stub(std::rt::thread_cleanup, noop)]
    #[kani::stub(alloc::fmt::format, empty_string)]
    fn c08_type_ordinary_nesting_ok() {
        let raw: [u8; 10] = [0x00, 0x20, 0x00, 0x21, 0x00, 0x09, 0x00, 0x22, 0x00, 0x0D];
        let mut s = &raw[..];
        let r = MD::new(deser_type_owned(&mut s));
        match &*r {
            Ok(ColumnType::Collection { typ: CollectionType::List(inner), .. }) => match &**inner {
                ColumnType::Collection { typ: CollectionType::Map(k, v), .. } => {
                    assert!(matches!(**k, ColumnType::Native(NativeType::Int)));
                    assert!(matches!(&**v, ColumnType::Collection { typ: CollectionType::Set(e), .. } if matches!(**e, ColumnType::Native(NativeType::Text))));
                }
                _ => assert!(false, "map expected"),
            },
            _ => assert!(false, "list<map<int, set<text>>> decodes"),
        }
        assert!(s.is_empty());
    }

    /// canary
    #[kani::proof]
    #[kani::unwind(4)]
    #[kani::should_panic]
    #[kani::stub(std::rt::thread_cleanup, noop)]
    #[kani::stub(alloc::fmt::format, empty_string)]
    fn c08_canary_unknown_type_id_accepted() {
        let raw: [u8; 2] = [0x00, 0x0A];
        let mut s = &raw[..];
        let r = MD::new(deser_type_owned(&mut s));
        assert!(r.is_ok(), "type id 0x000A does not exist in v4 - claiming it decodes must be refuted");
    }
    // `char::is_alphanumeric` / `is_whitespace` consult Unicode tables (binary search + skip search) that CBMC unwinds for
    // every character; the names below are pure ASCII, where they coincide with the ASCII predicates - the stubs CHECK
    // that the character is ASCII.
    fn ascii_alphanumeric(c: char) -> bool {
        assert!(c.is_ascii(), "harness input is ASCII");
        c.is_ascii_alphanumeric()
    }
    fn ascii_whitespace(c: char) -> bool {
        assert!(c.is_ascii(), "harness input is ASCII");
        c == ' ' || ('\x09'..='\x0d').contains(&c)
    }

    /// `ParserState::take_while` finds the end of a token with `str::find(closure)`, whose pointer-based char iterator CBMC
    /// cannot keep concrete (10+ min for an 8-byte name). For the pure-ASCII names of these harnesses it is replaced by the
    /// obvious byte-index loop; ASCII-ness is CHECKED. (A dependency of the parser under test, not the parser itself.)
    fn take_while_ascii<'s>(me: crate::utils::parse::ParserState<'s>, mut pred: impl FnMut(char) -> bool) -> (&'s str, crate::utils::parse::ParserState<'s>)
    where
        's: 's, // (makes the lifetime early-bound, as it is in `impl<'s> ParserState<'s>`)
    {
        let b = me.s.as_bytes();
        let mut idx = 0;
        while idx < b.len() {
            assert!(b[idx] < 0x80, "harness input is ASCII");
            if !pred(b[idx] as char) {
                break;
            }
            idx += 1;
        }
        unsafe { (std::str::from_utf8_unchecked(&b[..idx]), crate::utils::parse::ParserState { s: std::str::from_utf8_unchecked(&b[idx..]) }) }
    }

    /// bounded stack, custom type NAMES: a single [string] can nest `SetType(SetType(...` thousands of levels deep
    /// (9 bytes per level); the name parser is recursive, so a name nested 160 levels deep must be refused
    #[kani::proof]
    #[kani::unwind(140)]
    #[kani::stub(std::rt::thread_cleanup, noop)]
    #[kani::stub(alloc::fmt::format, empty_string)]
    #[kani::stub(char::is_alphanumeric, ascii_alphanumeric)]
    #[kani::stub(char::is_whitespace, ascii_whitespace)]
    #[kani::stub(crate::utils::parse::ParserState::take_while, take_while_ascii)]
    fn c08_custom_type_name_nesting_bounded() {
        let name: &'static str = unsafe { std::str::from_utf8_unchecked(&NESTED_NAME) };
        let r = MD::new(crate::frame::response::custom_type_parser::CustomTypeParser::parse(name));
        assert!(r.is_err(), "a custom type name nested 160 levels deep must be refused (recursion depth is input-controlled)");
    }
    const NAME_DEPTH: usize = 160;
    static NESTED_NAME: [u8; 9 * NAME_DEPTH + 9] = {
        let mut raw = [0u8; 9 * NAME_DEPTH + 9];
        let open = *b"SetType(";
        let leaf = *b"Int32Type";
        let mut i = 0;
        while i < NAME_DEPTH {
            let mut j = 0;
            while j < 8 {
                raw[8 * i + j] = open[j];
                j += 1;
            }
            i += 1;
        }
        let mut j = 0;
        while j < 9 {
            raw[8 * NAME_DEPTH + j] = leaf[j];
            j += 1;
        }
        let mut i = 0;
        while i < NAME_DEPTH {
            raw[8 * NAME_DEPTH + 9 + i] = b')';
            i += 1;
        }
        raw
    };
    /// ... while an ordinary custom type name still parses: MapType(Int32Type, ListType(UTF8Type))
    #[kani::proof]
    #[kani::unwind(60)]
    #[kani::stub(std::rt::thread_cleanup, noop)]
    #[kani::stub(alloc::fmt::format, empty_string)]
    #[kani::stub(char::is_alphanumeric, ascii_alphanumeric)]
    #[kani::stub(char::is_whitespace, ascii_whitespace)]
    #[kani::stub(crate::utils::parse::ParserState::take_while, take_while_ascii)]
    fn c08_custom_type_name_ordinary_ok() {
        static RAW: [u8; 96] = pad(*b"MapType(Int32Type,ListType(UTF8Type))");
        let r = MD::new(crate::frame::response::custom_type_parser::CustomTypeParser::parse(unsafe { std::str::from_utf8_unchecked(&RAW[..37]) }));
        match &*r {
            Ok(ColumnType::Collection { typ: CollectionType::Map(k, v), .. }) => {
                assert!(matches!(**k, ColumnType::Native(NativeType::Int)));
                assert!(matches!(&**v, ColumnType::Collection { typ: CollectionType::List(e), .. } if matches!(**e, ColumnType::Native(NativeType::Text))));
            }
            _ => assert!(false, "map<int, list<text>> expected"),
        }
    }
    /// termination: a parameter list that is cut off ("SetType(" - 8 bytes) must give an error; every loop of the parser
    /// is unwound at most 40 times for this input, so an unwinding failure here means the parser does not terminate
    #[kani::proof]
    #[kani::unwind(40)]
    #[kani::stub(std::rt::thread_cleanup, noop)]
    #[kani::stub(alloc::fmt::format, empty_string)]
    #[kani::stub(char::is_alphanumeric, ascii_alphanumeric)]
    #[kani::stub(char::is_whitespace, ascii_whitespace)]
    #[kani::stub(crate::utils::parse::ParserState::take_while, take_while_ascii)]
    fn c08_custom_type_name_unterminated() {
        // (the name is the prefix of a 96-byte constant: see `pad`)
        static RAW: [u8; 96] = pad(*b"SetType(");
        let r = MD::new(crate::frame::response::custom_type_parser::CustomTypeParser::parse(unsafe { std::str::from_utf8_unchecked(&RAW[..8]) }));
        assert!(r.is_err(), "an unterminated parameter list is an error");
    }
    /// ... and so must a parameter list containing a character that starts no type ("SetType(#")
    #[kani::proof]
    #[kani::unwind(40)]
    #[kani::stub(std::rt::thread_cleanup, noop)]
    #[kani::stub(alloc::fmt::format, empty_string)]
    #[kani::stub(char::is_alphanumeric, ascii_alphanumeric)]
    #[kani::stub(char::is_whitespace, ascii_whitespace)]
    #[kani::stub(crate::utils::parse::ParserState::take_while, take_while_ascii)]
    fn c08_custom_type_name_stray_character() {
        static RAW: [u8; 96] = pad(*b"SetType(#");
        let r = MD::new(crate::frame::response::custom_type_parser::CustomTypeParser::parse(unsafe { std::str::from_utf8_unchecked(&RAW[..9]) }));
        assert!(r.is_err(), "a stray character in a parameter list is an error");
    }
}
