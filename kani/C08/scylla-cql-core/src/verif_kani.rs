// C08 — leaf tables assumed by the Verus unit c08_error_frame, checked on the compiled code.
#![allow(dead_code, unused_imports)]
mod c08_tables {
    use crate::frame::response::error::WriteType;

    fn noop() {}

    /// WriteType::from(&str): the protocol's write-type strings map to their variants, anything else to Other(s)
    #[kani::proof]
    #[kani::unwind(16)]
    #[kani::stub(std::rt::thread_cleanup, noop)]
    fn c08_write_type_from() {
        assert!(WriteType::from("SIMPLE") == WriteType::Simple);
        assert!(WriteType::from("BATCH") == WriteType::Batch);
        assert!(WriteType::from("UNLOGGED_BATCH") == WriteType::UnloggedBatch);
        assert!(WriteType::from("COUNTER") == WriteType::Counter);
        assert!(WriteType::from("BATCH_LOG") == WriteType::BatchLog);
        assert!(WriteType::from("CAS") == WriteType::Cas);
        assert!(WriteType::from("VIEW") == WriteType::View);
        assert!(WriteType::from("CDC") == WriteType::Cdc);
        assert!(WriteType::from("batch_log") == WriteType::Other("batch_log".to_string()));
    }
}
