// C08 — bounded Kani twins of the Verus reader contracts, on the compiled code (8 fully symbolic input bytes,
// every truncation): never panic, never read past the end, exact results.
#![allow(dead_code, unused_imports)]
mod c08 {
    use super::super::*;

    fn noop() {}
    fn empty_string(_a: std::fmt::Arguments<'_>) -> String { String::new() }

    fn input() -> ([u8; 8], usize) {
        let b: [u8; 8] = kani::any();
        let n: usize = kani::any();
        kani::assume(n <= 8);
        (b, n)
    }

    #[kani::proof]
    #[kani::unwind(10)]
    #[kani::stub(std::rt::thread_cleanup, noop)]
    #[kani::stub(alloc::fmt::format, empty_string)]
    fn c08_twin_read_value() {
        let (b, n) = input();
        let mut buf = &b[..n];
        let r = read_value(&mut buf);
        assert!(buf.len() <= n, "never reads past the end");
        if n < 4 {
            assert!(r.is_err());
        } else {
            let len = i32::from_be_bytes([b[0], b[1], b[2], b[3]]);
            match r {
                Ok(RawValue::Null) => assert!(len == -1 && buf.len() == n - 4),
                Ok(RawValue::Unset) => assert!(len == -2 && buf.len() == n - 4),
                Ok(RawValue::Value(v)) => {
                    assert!(len >= 0 && (len as usize) <= n - 4);
                    assert!(v == &b[4..4 + len as usize] && buf.len() == n - 4 - len as usize, "exactly the announced bytes");
                }
                Err(_) => assert!(len < -2 || (len >= 0 && (len as usize) > n - 4), "error only for invalid length / truncation"),
            }
        }
    }

    #[kani::proof]
    #[kani::unwind(10)]
    #[kani::stub(std::rt::thread_cleanup, noop)]
    #[kani::stub(alloc::fmt::format, empty_string)]
    fn c08_twin_read_bytes_opt_and_short_bytes() {
        let (b, n) = input();
        let mut buf = &b[..n];
        let r = read_bytes_opt(&mut buf);
        assert!(buf.len() <= n);
        if n >= 4 {
            let len = i32::from_be_bytes([b[0], b[1], b[2], b[3]]);
            match r {
                Ok(None) => assert!(len < 0 && buf.len() == n - 4),
                Ok(Some(v)) => assert!(len >= 0 && v == &b[4..4 + len as usize] && buf.len() == n - 4 - len as usize),
                Err(_) => assert!(len >= 0 && (len as usize) > n - 4),
            }
        } else {
            assert!(r.is_err());
        }
        let mut buf2 = &b[..n];
        let r2 = read_short_bytes(&mut buf2);
        assert!(buf2.len() <= n);
        if n >= 2 {
            let len = u16::from_be_bytes([b[0], b[1]]) as usize;
            match r2 {
                Ok(v) => assert!(len <= n - 2 && v == &b[2..2 + len] && buf2.len() == n - 2 - len),
                Err(_) => assert!(len > n - 2),
            }
        } else {
            assert!(r2.is_err());
        }
        let mut buf3 = &b[..n];
        let r3 = read_int_length(&mut buf3);
        if n >= 4 {
            let len = i32::from_be_bytes([b[0], b[1], b[2], b[3]]);
            assert!(r3.is_ok() == (len >= 0), "a negative [int] is never turned into a length");
        }
    }
}
