// C20 — keyspace-name validation on the real code (`VerifiedKeyspaceName`).
#![allow(dead_code, unused_imports)]
mod c20 {
    use super::super::*;

    fn noop() {}
    fn empty_string(_a: std::fmt::Arguments<'_>) -> String { String::new() }

    fn spec_valid_byte(b: u8) -> bool {
        (b >= b'a' && b <= b'z') || (b >= b'A' && b <= b'Z') || (b >= b'0' && b <= b'9') || b == b'_'
    }

    /// Spec (CQL identifier rule quoted in the property): accepted iff 1..=48 characters, each of [A-Za-z0-9_].
    /// Checked for every ASCII byte string of length 0..=N.
    fn check_ascii<const N: usize>() {
        let bytes: [u8; N] = kani::any();
        let len: usize = kani::any();
        kani::assume(len <= N);
        let mut i = 0;
        while i < N {
            kani::assume(bytes[i] < 0x80);
            i += 1;
        }
        let s = std::str::from_utf8(&bytes[..len]).unwrap();
        let mut all_ok = true;
        let mut j = 0;
        while j < N {
            if j < len && !spec_valid_byte(bytes[j]) {
                all_ok = false;
            }
            j += 1;
        }
        let expect_ok = len >= 1 && len <= 48 && all_ok;
        let case_sensitive: bool = kani::any();
        match VerifiedKeyspaceName::new(s.to_string(), case_sensitive) {
            Ok(v) => {
                assert!(expect_ok, "accepted name is a valid identifier");
                assert!(v.as_str().as_bytes() == &bytes[..len], "accepted name is stored unchanged");
                assert!(v.is_case_sensitive == case_sensitive);
            }
            Err(BadKeyspaceName::Empty) => assert!(len == 0),
            Err(BadKeyspaceName::TooLong(_, n)) => assert!(len > 48 && n == len),
            Err(BadKeyspaceName::IllegalCharacter(_, c)) => {
                assert!(!all_ok && len <= 48);
                assert!(!(c.is_ascii_alphanumeric() || c == '_'));
            }
        }
        kani::cover!(expect_ok);
    }

    /// short names, all ASCII bytes (every character class incl. quote, space, semicolon, NUL)
    #[kani::proof]
    #[kani::unwind(7)]
    #[kani::stub(std::rt::thread_cleanup, noop)]
    fn c20_name_ascii_len5() {
        check_ascii::<5>();
    }

    /// the cheap twin used by the quick tier when Verus cannot decide: names of <= 2 ASCII bytes
    #[kani::proof]
    #[kani::unwind(4)]
    #[kani::stub(std::rt::thread_cleanup, noop)]
    fn c20_name_ascii_len2() {
        check_ascii::<2>();
    }

    /// a name containing a non-ASCII character (2-byte UTF-8 sequence) anywhere is rejected
    #[kani::proof]
    #[kani::unwind(6)]
    #[kani::stub(std::rt::thread_cleanup, noop)]
    fn c20_name_non_ascii_rejected() {
        let lead: u8 = kani::any();
        let cont: u8 = kani::any();
        kani::assume(lead >= 0xC2 && lead <= 0xDF && cont >= 0x80 && cont <= 0xBF);
        let bytes = [b'a', lead, cont];
        let s = std::str::from_utf8(&bytes).unwrap();
        assert!(VerifiedKeyspaceName::new(s.to_string(), kani::any()).is_err());
    }

    /// canary
    #[kani::proof]
    #[kani::unwind(6)]
    #[kani::should_panic]
    #[kani::stub(std::rt::thread_cleanup, noop)]
    fn c20_canary_everything_rejected() {
        let bytes: [u8; 2] = kani::any();
        kani::assume(bytes[0] < 0x80 && bytes[1] < 0x80);
        let s = std::str::from_utf8(&bytes[..]).unwrap();
        assert!(VerifiedKeyspaceName::new(s.to_string(), false).is_err());
    }
}
