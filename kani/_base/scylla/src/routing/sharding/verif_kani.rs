// Spec functions referenced by the in-place `cfg_attr(kani, kani::requires/ensures)` contracts of
// scylla/src/routing/sharding.rs. Written from ScyllaDB's documented sharding algorithm and from the
// text of property C11, not from the driver's code.
#![allow(dead_code, unused_imports, unreachable_pub)]
use super::*;

/// ScyllaDB: bias the token by 2^63, shift left by the ignored bits (mod 2^64), multiply by the
/// shard count and take the high 64 bits. Computed in 128-bit mathematical style.
pub(crate) fn spec_shard(token: i64, nr_shards: u16, msb_ignore: u8) -> u128 {
    let biased: u128 = ((token as i128) + (1i128 << 63)) as u128; // 0 .. 2^64
    let shifted: u128 = (biased << msb_ignore) & 0xFFFF_FFFF_FFFF_FFFFu128;
    (shifted * (nr_shards as u128)) >> 64
}

pub(crate) fn valid_range(r: &ShardAwarePortRange) -> bool {
    *r.0.start() >= 1024 && *r.0.start() <= *r.0.end()
}

/// Post-condition of `calculate_lowest_port_for_shard_in_range`, universally quantified over a
/// witness port `q` (a fresh symbolic value each time the contract is checked):
///   Some(p): p is in the range, congruent to the shard, and no smaller port of the range is;
///   None   : no port of the range is congruent to the shard.
pub(crate) fn lowest_port_post(
    sh: &Sharder,
    shard: u16,
    r: &ShardAwarePortRange,
    res: Option<u16>,
) -> bool {
    let (lo, hi, n) = (*r.0.start(), *r.0.end(), sh.nr_shards.get());
    let q: u16 = kani::any();
    let q_in_range = lo <= q && q <= hi;
    match res {
        Some(p) => {
            lo <= p && p <= hi && p % n == shard && !(q_in_range && q < p && q % n == shard)
        }
        None => !(q_in_range && q % n == shard),
    }
}
