// Contract model of `tokio::sync::Notify`, used by merge_channel.rs under `cargo kani` only (see the cfg(kani) import
// there). The real Notify (intrusive waiter list behind a mutex) costs CBMC > 18 min for a 4-step schedule; the code
// under verification is merge_channel.rs, which is checked against this contract of its dependency (ASSUMED, taken from
// tokio's documentation of Notify::notify_one / Notified::enable / Notified's cancel safety):
//   * notify_one(): if a Notified is waiting (enabled or polled, not yet notified) it becomes ready and its waker, if it
//     registered one, is woken (counted in WAKES - the model does not store the Waker); otherwise one permit is stored (at most one).
//   * Notified::enable() / first poll: consumes the permit if there is one (ready), else registers as waiting.
//   * dropping a Notified that was notified by notify_one but never completed passes the notification on (here, with a
//     single consumer: back into the permit); dropping a waiting one deregisters it.
// Sequential (Kani has no threads); at most one Notified waits at a time, which `Receiver::recv(&mut self)` guarantees -
// the model asserts it.
#[allow(dead_code)]
pub(super) mod notify_model {
    use std::cell::Cell;
    use std::future::Future;
    use std::marker::PhantomPinned;
    use std::pin::Pin;
    use std::task::{Context, Poll, Waker};

    pub(crate) struct Notify {
        permit: Cell<bool>,
        waiter: Cell<*const Slot>,
    }
    // the driver moves channel endpoints between tasks; harnesses are sequential
    unsafe impl Send for Notify {}
    unsafe impl Sync for Notify {}

    struct Slot {
        /// 0 = created, 1 = waiting, 2 = notified (not yet observed), 3 = done
        state: Cell<u8>,
        /// the waiting task registered a waker (it was polled, not merely enabled)
        has_waker: Cell<bool>,
    }

    /// Ghost observation: how many times a registered waker has been woken. (The model counts instead of storing and
    /// calling the task's `Waker`: harnesses poll with a no-op waker and read this counter.)
    static mut WAKES: u32 = 0;
    pub(crate) fn wakes() -> u32 {
        unsafe { WAKES }
    }

    pub(crate) struct Notified<'a> {
        notify: &'a Notify,
        slot: Slot,
        _pin: PhantomPinned,
    }
    unsafe impl Send for Notified<'_> {}
    unsafe impl Sync for Notified<'_> {}

    impl Notify {
        pub(crate) fn new() -> Self {
            Notify { permit: Cell::new(false), waiter: Cell::new(std::ptr::null()) }
        }
        pub(crate) fn notified(&self) -> Notified<'_> {
            Notified { notify: self, slot: Slot { state: Cell::new(0), has_waker: Cell::new(false) }, _pin: PhantomPinned }
        }
        pub(crate) fn notify_one(&self) {
            let w = self.waiter.get();
            if w.is_null() {
                self.permit.set(true);
            } else {
                let s = unsafe { &*w };
                s.state.set(2);
                self.waiter.set(std::ptr::null());
                if s.has_waker.replace(false) {
                    unsafe { WAKES += 1 };
                }
            }
        }
    }

    impl Notified<'_> {
        pub(crate) fn enable(self: Pin<&mut Self>) -> bool {
            self.as_ref().get_ref().step(None).is_ready()
        }
        fn step(&self, waker: Option<&Waker>) -> Poll<()> {
            match self.slot.state.get() {
                0 => {
                    if self.notify.permit.get() {
                        self.notify.permit.set(false);
                        self.slot.state.set(3);
                        Poll::Ready(())
                    } else {
                        assert!(self.notify.waiter.get().is_null(), "Notify model: a single waiter at a time");
                        self.notify.waiter.set(&self.slot);
                        self.slot.state.set(1);
                        self.slot.has_waker.set(waker.is_some());
                        Poll::Pending
                    }
                }
                1 => {
                    if waker.is_some() {
                        self.slot.has_waker.set(true);
                    }
                    Poll::Pending
                }
                _ => {
                    self.slot.state.set(3);
                    Poll::Ready(())
                }
            }
        }
    }

    impl Future for Notified<'_> {
        type Output = ();
        fn poll(self: Pin<&mut Self>, cx: &mut Context<'_>) -> Poll<()> {
            self.as_ref().get_ref().step(Some(cx.waker()))
        }
    }

    impl Drop for Notified<'_> {
        fn drop(&mut self) {
            match self.slot.state.get() {
                1 => self.notify.waiter.set(std::ptr::null()),
                2 => self.notify.notify_one(), // notified but never completed: the notification is passed on
                _ => {}
            }
        }
    }
}
