// C17 — bounded Kani twin of the Verus contract of SerializedValues::add_value (rollback + count), on the
// compiled code, with a value whose serialize() writes some bytes through the CellWriter API and then
// nondeterministically fails (the "nested element failure after part of the cell was written" case).
#![allow(dead_code, unused_imports)]
mod c17 {
    use super::super::*;
    use crate::frame::response::result::NativeType;
    use crate::serialize::writers::WrittenCellProof;

    fn noop() {}
    fn empty_string(_a: std::fmt::Arguments<'_>) -> String { String::new() }

    #[derive(Debug)]
    struct Boom;
    impl std::fmt::Display for Boom {
        fn fmt(&self, f: &mut std::fmt::Formatter<'_>) -> std::fmt::Result { f.write_str("boom") }
    }
    impl std::error::Error for Boom {}

    /// a carrier allowed to do anything the CellWriter API permits
    struct Sym { garbage: [u8; 3], n: usize, nested: bool, fail: bool, typeck_fail: bool }
    impl SerializeValue for Sym {
        fn serialize<'b>(&self, _typ: &ColumnType, writer: CellWriter<'b>) -> Result<WrittenCellProof<'b>, SerializationError> {
            let mut b = writer.into_value_builder();
            b.append_bytes(&self.garbage[..self.n]);
            if self.nested {
                b.make_sub_writer().set_null();
            }
            if self.typeck_fail {
                // a genuine type-check error of a nested element, raised after part of the cell was written
                let blob = std::mem::ManuallyDrop::new(ColumnType::Native(NativeType::Blob));
                5i32.serialize(&blob, b.make_sub_writer())?;
            }
            if self.fail {
                return Err(SerializationError::new(Boom));
            }
            b.finish().map_err(|_| SerializationError::new(Boom))
        }
    }
    /// number of [value] cells in a well-formed buffer (None if malformed); bounded loop
    fn count_cells(mut s: &[u8]) -> Option<u16> {
        let mut k = 0u16;
        let mut guard = 0;
        while !s.is_empty() && guard < 4 {
            if s.len() < 4 { return None; }
            let n = i32::from_be_bytes([s[0], s[1], s[2], s[3]]);
            s = &s[4..];
            if n >= 0 {
                if s.len() < n as usize { return None; }
                s = &s[n as usize..];
            } else if n < -2 {
                return None;
            }
            k += 1;
            guard += 1;
        }
        if s.is_empty() { Some(k) } else { None }
    }

    /// one concrete shape (how many earlier values, how many bytes the failing carrier writes, whether it opens a nested
    /// cell, how it fails); the BYTES stay symbolic. Shapes are enumerated concretely because buffers of symbolic length
    /// make CBMC run out of memory (measured: > 50 GB).
    fn shape(pre: usize, n: usize, nested: bool, fail: bool, typeck_fail: bool) {
        let typ = std::mem::ManuallyDrop::new(ColumnType::Native(NativeType::Blob));
        let typ: &ColumnType = &typ;
        let mut sv = SerializedValues::new();
        let mut i = 0;
        while i < pre {
            let s = Sym { garbage: kani::any(), n: 1, nested: i == 1, fail: false, typeck_fail: false };
            assert!(std::mem::ManuallyDrop::new(sv.add_value(&s, typ)).is_ok());
            i += 1;
        }
        let before = sv.get_contents().to_vec();
        let count_before = sv.element_count();
        assert!(count_cells(&before) == Some(count_before), "count == number of encoded cells (before)");
        let v = Sym { garbage: kani::any(), n, nested, fail, typeck_fail };
        let r = std::mem::ManuallyDrop::new(sv.add_value(&v, typ));
        assert!(r.is_err() == (fail || typeck_fail));
        if r.is_err() {
            assert!(sv.get_contents() == &before[..], "failed bind: bytes unchanged");
            assert!(sv.element_count() == count_before, "failed bind: count unchanged");
        } else {
            assert!(sv.element_count() == count_before + 1);
            assert!(sv.get_contents().len() >= before.len() && sv.get_contents()[..before.len()] == before[..], "earlier values untouched");
        }
        assert!(count_cells(sv.get_contents()) == Some(sv.element_count()), "count == number of encoded cells (after)");
    }

    #[kani::proof]
    #[kani::unwind(20)]
    #[kani::stub(std::rt::thread_cleanup, noop)]
    #[kani::stub(alloc::fmt::format, empty_string)]
    fn c17_twin_add_value() {
        // failure kinds after 0 and after 2 earlier values, with 0 / 3 bytes already written, with / without a nested cell
        shape(0, 0, false, true, false);
        shape(0, 3, true, false, true);
        shape(2, 3, false, true, false);
        shape(2, 1, true, false, true);
        shape(1, 2, true, false, false);
    }
}
