// C17 — carrier x column-type acceptance matrix for the variable-length native carriers and for non-native column
// shapes (the fixed-width carriers are in the C01 module above, which the C17 check runs as well).
// The oracle is the documentation table docs/source/data-types/data-types.md, not the code.
#![allow(dead_code, unused_imports)]
mod c17m {
    use crate::deserialize::value::DeserializeValue;
    use crate::frame::response::result::{CollectionType, ColumnType, NativeType, UserDefinedType};
    use crate::serialize::value::SerializeValue;
    use crate::serialize::writers::CellWriter;
    use crate::value::{Counter, CqlDate, CqlDecimal, CqlDecimalBorrowed, CqlDuration, CqlTime, CqlTimestamp, CqlTimeuuid, CqlVarint, CqlVarintBorrowed};
    use std::mem::ManuallyDrop as MD;
    use std::net::IpAddr;
    use std::sync::Arc;

    fn noop() {}
    fn empty_string(_a: std::fmt::Arguments<'_>) -> String { String::new() }
    // The helpers that rewrite the Rust type NAME inside an error (Arc::get_mut + dyn downcasts) are replaced by the
    // identity: their type is Error -> Error, so they cannot turn a refusal into an acceptance or vice versa, and the
    // error text is not part of the property. (With them, one wrapped carrier costs > 15 GB in CBMC.)
    fn same_tc<T>(e: crate::deserialize::TypeCheckError) -> crate::deserialize::TypeCheckError { e }
    fn same_ser<T>(e: crate::serialize::SerializationError) -> crate::serialize::SerializationError { e }
    // The two type-check error constructors deep-copy the offending column type into the error (`clone().into_owned()`,
    // a recursion over ColumnType that CBMC unwinds at every refusal): replaced by constructors that record a dummy
    // column type. They still return an error value, so accept/refuse is unaffected.
    fn de_err_no_copy<K: Into<crate::deserialize::value::BuiltinTypeCheckErrorKind>>(name: &'static str, _t: &ColumnType, kind: K) -> crate::deserialize::TypeCheckError {
        crate::deserialize::TypeCheckError::new(crate::deserialize::value::BuiltinTypeCheckError {
            rust_name: name, cql_type: ColumnType::Native(NativeType::Blob), kind: kind.into() })
    }
    fn ser_err_no_copy<K: Into<crate::serialize::value::BuiltinTypeCheckErrorKind>>(name: &'static str, _t: &ColumnType, kind: K) -> crate::serialize::SerializationError {
        crate::serialize::SerializationError::new(crate::serialize::value::BuiltinTypeCheckError {
            rust_name: name, got: ColumnType::Native(NativeType::Blob), kind: kind.into() })
    }

    const NATIVES: [NativeType; 20] = [
        NativeType::Ascii, NativeType::Boolean, NativeType::Blob, NativeType::Counter, NativeType::Date,
        NativeType::Decimal, NativeType::Double, NativeType::Duration, NativeType::Float, NativeType::Int,
        NativeType::BigInt, NativeType::Text, NativeType::Timestamp, NativeType::Inet, NativeType::SmallInt,
        NativeType::TinyInt, NativeType::Time, NativeType::Timeuuid, NativeType::Uuid, NativeType::Varint,
    ];
    fn any_native() -> NativeType {
        let i: usize = kani::any();
        kani::assume(i < NATIVES.len());
        NATIVES[i].clone()
    }

    /// reading: `T::type_check(native nt)` is Ok exactly for the documented column types
    fn reads<'f, 'm, T: DeserializeValue<'f, 'm>>(typ: &ColumnType) -> bool {
        MD::new(T::type_check(typ)).is_ok()
    }
    /// binding: `v.serialize(native nt)` is Ok exactly for the documented column types, and a refused value leaves the
    /// request buffer byte-for-byte untouched (nothing of a mismatched value is sent)
    fn binds<T: SerializeValue + ?Sized>(v: &T, typ: &ColumnType, documented: bool) {
        let prefix: u8 = kani::any();
        let mut buf: Vec<u8> = vec![prefix];
        let ok = MD::new(v.serialize(typ, CellWriter::new(&mut buf))).is_ok();
        assert!(ok == documented, "bind accepted exactly for the documented column types");
        if !documented {
            assert!(buf.len() == 1 && buf[0] == prefix, "no byte of a mismatched value is written");
        } else {
            assert!(buf.len() >= 5 && buf[0] == prefix, "earlier bytes untouched, a cell appended");
        }
    }

    macro_rules! harness {
        ($name:ident, $unwind:expr, $body:block) => {
            #[kani::proof]
            #[kani::unwind($unwind)]
            #[kani::stub(std::rt::thread_cleanup, noop)]
            #[kani::stub(alloc::fmt::format, empty_string)]
            #[kani::stub(crate::deserialize::value::typck_error_replace_rust_name, same_tc)]
            #[kani::stub(crate::serialize::value::fix_rust_name_in_err, same_ser)]
            #[kani::stub(crate::deserialize::value::mk_typck_err_named, de_err_no_copy)]
            #[kani::stub(crate::serialize::value::mk_typck_err_named, ser_err_no_copy)]
            fn $name() $body
        };
    }

    // ---- reading (DeserializeValue::type_check), every native column type
    harness!(c17_read_text_carriers, 4, {
        let nt = any_native();
        let doc = matches!(nt, NativeType::Ascii | NativeType::Text);
        let typ = MD::new(ColumnType::Native(nt));
        assert!(reads::<String>(&typ) == doc);
        assert!(reads::<&str>(&typ) == doc);
    });
    harness!(c17_read_text_ptr_carriers, 4, {
        let nt = any_native();
        let doc = matches!(nt, NativeType::Ascii | NativeType::Text);
        let typ = MD::new(ColumnType::Native(nt));
        assert!(reads::<Box<str>>(&typ) == doc);
        assert!(reads::<Arc<str>>(&typ) == doc);
    });
    harness!(c17_read_blob_carriers, 4, {
        let nt = any_native();
        let doc = matches!(nt, NativeType::Blob);
        let typ = MD::new(ColumnType::Native(nt));
        assert!(reads::<Vec<u8>>(&typ) == doc);
        assert!(reads::<&[u8]>(&typ) == doc);
        assert!(reads::<bytes::Bytes>(&typ) == doc);
    });
    harness!(c17_read_bignum_carriers, 4, {
        let nt = any_native();
        let typ = MD::new(ColumnType::Native(nt.clone()));
        assert!(reads::<CqlVarint>(&typ) == matches!(nt, NativeType::Varint));
        assert!(reads::<CqlVarintBorrowed<'_>>(&typ) == matches!(nt, NativeType::Varint));
        assert!(reads::<CqlDecimal>(&typ) == matches!(nt, NativeType::Decimal));
        assert!(reads::<CqlDecimalBorrowed<'_>>(&typ) == matches!(nt, NativeType::Decimal));
    });
    harness!(c17_read_misc_carriers, 4, {
        let nt = any_native();
        let typ = MD::new(ColumnType::Native(nt.clone()));
        assert!(reads::<IpAddr>(&typ) == matches!(nt, NativeType::Inet));
        assert!(reads::<CqlDuration>(&typ) == matches!(nt, NativeType::Duration));
        assert!(reads::<uuid::Uuid>(&typ) == matches!(nt, NativeType::Uuid));
        assert!(reads::<CqlTimeuuid>(&typ) == matches!(nt, NativeType::Timeuuid));
        assert!(reads::<Counter>(&typ) == matches!(nt, NativeType::Counter));
    });
    harness!(c17_read_fixed_carriers, 4, {
        let nt = any_native();
        let typ = MD::new(ColumnType::Native(nt.clone()));
        assert!(reads::<bool>(&typ) == matches!(nt, NativeType::Boolean));
        assert!(reads::<i8>(&typ) == matches!(nt, NativeType::TinyInt));
        assert!(reads::<i16>(&typ) == matches!(nt, NativeType::SmallInt));
        assert!(reads::<i32>(&typ) == matches!(nt, NativeType::Int));
        assert!(reads::<i64>(&typ) == matches!(nt, NativeType::BigInt));
        assert!(reads::<f32>(&typ) == matches!(nt, NativeType::Float));
        assert!(reads::<f64>(&typ) == matches!(nt, NativeType::Double));
        assert!(reads::<CqlDate>(&typ) == matches!(nt, NativeType::Date));
        assert!(reads::<CqlTime>(&typ) == matches!(nt, NativeType::Time));
        assert!(reads::<CqlTimestamp>(&typ) == matches!(nt, NativeType::Timestamp));
    });

    // ---- binding (SerializeValue::serialize), every native column type
    harness!(c17_bind_text_carriers, 6, {
        let nt = any_native();
        let doc = matches!(nt, NativeType::Ascii | NativeType::Text);
        let typ = MD::new(ColumnType::Native(nt));
        let s = MD::new(String::from("ab"));
        binds::<str>("ab", &typ, doc);
        binds::<String>(&s, &typ, doc);
    });
    harness!(c17_bind_blob_carriers, 6, {
        let nt = any_native();
        let doc = matches!(nt, NativeType::Blob);
        let typ = MD::new(ColumnType::Native(nt));
        let v = MD::new(vec![1u8, 2]);
        let sl: &[u8] = &[1u8, 2];
        binds::<Vec<u8>>(&v, &typ, doc);
        binds::<&[u8]>(&sl, &typ, doc);
        binds::<[u8; 2]>(&[1u8, 2], &typ, doc);
    });
    harness!(c17_bind_misc_carriers, 6, {
        let nt = any_native();
        let typ = MD::new(ColumnType::Native(nt.clone()));
        binds::<IpAddr>(&IpAddr::V4(std::net::Ipv4Addr::new(10, 0, 0, 1)), &typ, matches!(nt, NativeType::Inet));
        binds::<CqlDuration>(&CqlDuration { months: 1, days: 2, nanoseconds: 3 }, &typ, matches!(nt, NativeType::Duration));
    });
    harness!(c17_bind_bignum_carriers, 6, {
        let nt = any_native();
        let typ = MD::new(ColumnType::Native(nt.clone()));
        binds::<CqlVarintBorrowed<'_>>(&CqlVarintBorrowed::from_signed_bytes_be_slice(&[1u8, 2]), &typ, matches!(nt, NativeType::Varint));
        binds::<CqlDecimalBorrowed<'_>>(&CqlDecimalBorrowed::from_signed_be_bytes_slice_and_exponent(&[1u8, 2], 3), &typ, matches!(nt, NativeType::Decimal));
    });

    // ---- non-native column shapes are refused by every native carrier (reading and binding)
    fn shape(k: u8) -> ColumnType<'static> {
        let int = || Box::new(ColumnType::Native(NativeType::Int));
        match k {
            0 => ColumnType::Collection { frozen: false, typ: CollectionType::List(int()) },
            1 => ColumnType::Collection { frozen: false, typ: CollectionType::Set(int()) },
            2 => ColumnType::Collection { frozen: false, typ: CollectionType::Map(int(), int()) },
            3 => ColumnType::Vector { typ: int(), dimensions: 1 },
            4 => ColumnType::Tuple(vec![ColumnType::Native(NativeType::Int)]),
            _ => ColumnType::UserDefinedType {
                frozen: false,
                definition: Arc::new(UserDefinedType { name: "t".into(), keyspace: "k".into(), field_types: vec![("f".into(), ColumnType::Native(NativeType::Int))] }),
            },
        }
    }
    macro_rules! shape_case {
        ($name:ident, $k:expr) => {
            harness!($name, 3, {
                let typ = MD::new(shape($k));
                // (all native carriers share exact_type_check!'s `_ => Err` arm; four representatives)
                assert!(!reads::<i32>(&typ) && !reads::<String>(&typ) && !reads::<Vec<u8>>(&typ) && !reads::<uuid::Uuid>(&typ));
                binds::<i32>(&7, &typ, false);
                binds::<str>("ab", &typ, false);
            });
        };
    }
    shape_case!(c17_shape_list, 0);
    shape_case!(c17_shape_set, 1);
    shape_case!(c17_shape_map, 2);
    shape_case!(c17_shape_vector, 3);
    shape_case!(c17_shape_tuple, 4);
    shape_case!(c17_shape_udt, 5);

    // ---- nesting: a wrapper / container accepts a column type exactly when the shape is the documented one and the
    // element carrier accepts the element type (so a mismatch is refused at any depth, by induction over the type)
    fn nat(nt: NativeType) -> Box<ColumnType<'static>> { Box::new(ColumnType::Native(nt)) }
    fn coll(t: CollectionType<'static>) -> MD<ColumnType<'static>> { MD::new(ColumnType::Collection { frozen: false, typ: t }) }
    harness!(c17_nest_read_option_box_arc, 3, {
        let nt = any_native();
        let typ = MD::new(ColumnType::Native(nt.clone()));
        let doc = matches!(nt, NativeType::Int);
        assert!(reads::<Option<i32>>(&typ) == doc);
        assert!(reads::<Box<i32>>(&typ) == doc);
        assert!(reads::<Arc<i32>>(&typ) == doc);
        assert!(reads::<Option<Option<i32>>>(&typ) == doc);
    });
    harness!(c17_nest_read_vec, 3, {
        let nt = any_native();
        let doc = matches!(nt, NativeType::Int);
        assert!(reads::<Vec<i32>>(&coll(CollectionType::List(nat(nt.clone())))) == doc, "list<nt> -> Vec<i32>");
        assert!(reads::<Vec<i32>>(&coll(CollectionType::Set(nat(nt.clone())))) == doc, "set<nt> -> Vec<i32>");
        assert!(reads::<Vec<i32>>(&MD::new(ColumnType::Vector { typ: nat(nt.clone()), dimensions: 2 })) == doc, "vector<nt,2> -> Vec<i32>");
        assert!(!reads::<Vec<i32>>(&MD::new(ColumnType::Native(nt.clone()))), "a native column is not a Vec");
        assert!(!reads::<Vec<i32>>(&coll(CollectionType::Map(nat(nt.clone()), nat(nt)))), "a map column is not a Vec");
    });
    harness!(c17_nest_read_vec_depth2, 4, {
        let nt = any_native();
        let doc = matches!(nt, NativeType::Int);
        let inner = Box::new(ColumnType::Collection { frozen: false, typ: CollectionType::List(nat(nt)) });
        assert!(reads::<Vec<Vec<i32>>>(&coll(CollectionType::List(inner))) == doc, "list<list<nt>> -> Vec<Vec<i32>>");
    });
    harness!(c17_nest_read_sets_maps, 3, {
        use std::collections::{BTreeMap, BTreeSet};
        let (k, v) = (any_native(), any_native());
        let kd = matches!(k, NativeType::Int);
        let vd = matches!(v, NativeType::Ascii | NativeType::Text);
        assert!(reads::<BTreeSet<i32>>(&coll(CollectionType::Set(nat(k.clone())))) == kd, "set<k> -> BTreeSet<i32>");
        assert!(reads::<BTreeMap<i32, String>>(&coll(CollectionType::Map(nat(k.clone()), nat(v.clone())))) == (kd && vd), "map<k,v> -> BTreeMap<i32,String>");
        assert!(!reads::<BTreeMap<i32, String>>(&coll(CollectionType::List(nat(k)))), "a list column is not a map");
    });
    harness!(c17_nest_read_tuple, 3, {
        let (a, b) = (any_native(), any_native());
        let doc = matches!(a, NativeType::Int) && matches!(b, NativeType::Ascii | NativeType::Text);
        let t2 = MD::new(ColumnType::Tuple(vec![ColumnType::Native(a.clone()), ColumnType::Native(b.clone())]));
        assert!(reads::<(i32, String)>(&t2) == doc, "tuple<a,b> -> (i32, String)");
        let t1 = MD::new(ColumnType::Tuple(vec![ColumnType::Native(a.clone())]));
        assert!(!reads::<(i32, String)>(&t1), "a 1-tuple column is not a pair");
        assert!(!reads::<(i32, String)>(&MD::new(ColumnType::Native(a))), "a native column is not a tuple");
    });
    harness!(c17_nest_bind_option_box, 3, {
        let nt = any_native();
        let typ = MD::new(ColumnType::Native(nt.clone()));
        let doc = matches!(nt, NativeType::Int);
        binds::<Option<i32>>(&Some(7), &typ, doc);
        binds::<&i32>(&&7, &typ, doc);
        binds::<Box<i32>>(&MD::new(Box::new(7)), &typ, doc);
    });
    // (binding a Vec<i32> to list<t> was tried too: the sequence writer's paths exceed CBMC here - 7 GB, no answer in 12 min;
    //  the sequence/row writers are under Verus contracts in the C01 unit instead)

    /// canary: the (false) claim that String also reads a blob column must be refuted
    #[kani::proof]
    #[kani::unwind(4)]
    #[kani::should_panic]
    #[kani::stub(std::rt::thread_cleanup, noop)]
    #[kani::stub(alloc::fmt::format, empty_string)]
    fn c17_canary_string_reads_blob() {
        let typ = MD::new(ColumnType::Native(NativeType::Blob));
        assert!(reads::<String>(&typ));
    }
}
