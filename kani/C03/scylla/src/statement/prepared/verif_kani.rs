// C03 — partition-key extraction and layout: the byte stream handed to the partitioner's hasher.
#![allow(dead_code, unused_imports)]
mod c03pk {
    use super::super::*;
    use scylla_cql::frame::response::result::{ColumnSpec, ColumnType, NativeType, PartitionKeyIndex, PreparedMetadata, TableSpec};
    use scylla_cql::serialize::row::SerializedValues;

    fn noop() {}
    fn empty_string(_a: std::fmt::Arguments<'_>) -> String { String::new() }

    const MARKERS: usize = 4; // bind markers in the statement
    const MAXLEN: usize = 2; // bytes per bound value

    /// Statement with 4 bind markers (blob columns), `npk` of which are partition-key columns placed at ANY
    /// strictly increasing marker positions with ANY partition-key order (`sequence` = a permutation), as
    /// produced by `deser_prepared_metadata` (which sorts pk_indexes by marker index). Bound values: every marker
    /// gets 0..=2 arbitrary bytes. The stream written for hashing must be: the single key's bytes, or for a
    /// composite key  be16(len) ++ bytes ++ 0x00  per component in PARTITION-KEY order.
    fn check_layout<const NPK: usize>() {
        // bound values
        let vals: [[u8; MAXLEN]; MARKERS] = kani::any();
        let mut lens = [0usize; MARKERS];
        let mut sv = SerializedValues::new();
        // (values containing ColumnType are never dropped: its recursive drop glue is what CBMC spends its time on)
        let typ = std::mem::ManuallyDrop::new(ColumnType::Native(NativeType::Blob));
        let typ: &ColumnType = &typ;
        let mut m = 0;
        while m < MARKERS {
            let l: usize = kani::any();
            kani::assume(l <= MAXLEN);
            lens[m] = l;
            assert!(std::mem::ManuallyDrop::new(sv.add_value(&&vals[m][..l], typ)).is_ok());
            m += 1;
        }
        // partition key columns: marker index of key component with sequence s
        let mut marker_of_seq = [0u16; NPK];
        let mut s = 0;
        while s < NPK {
            let idx: u16 = kani::any();
            kani::assume((idx as usize) < MARKERS);
            marker_of_seq[s] = idx;
            s += 1;
        }
        // distinct markers
        let mut a = 0;
        while a < NPK {
            let mut b = a + 1;
            while b < NPK {
                kani::assume(marker_of_seq[a] != marker_of_seq[b]);
                b += 1;
            }
            a += 1;
        }
        // pk_indexes sorted by marker index (what deser_prepared_metadata guarantees)
        let mut pk_indexes: Vec<PartitionKeyIndex> = Vec::new();
        let mut idx = 0u16;
        while (idx as usize) < MARKERS {
            let mut s = 0;
            while s < NPK {
                if marker_of_seq[s] == idx {
                    pk_indexes.push(PartitionKeyIndex { index: idx, sequence: s as u16 });
                }
                s += 1;
            }
            idx += 1;
        }
        let ts = TableSpec::borrowed("ks", "t");
        let col_specs: Vec<ColumnSpec<'static>> = vec![
            ColumnSpec::borrowed("c0", typ.clone(), ts.clone()), ColumnSpec::borrowed("c1", typ.clone(), ts.clone()),
            ColumnSpec::borrowed("c2", typ.clone(), ts.clone()), ColumnSpec::borrowed("c3", typ.clone(), ts.clone()),
        ];
        let meta = std::mem::ManuallyDrop::new(PreparedMetadata { flags: 0, col_count: MARKERS, pk_indexes, col_specs });
        let meta: &PreparedMetadata = &meta;

        let pk = std::mem::ManuallyDrop::new(PartitionKey::new(meta, &sv));
        let pk = match &*pk { Ok(p) => p, Err(_) => { assert!(false, "key extraction succeeds"); return; } };
        let mut stream: Vec<u8> = Vec::new();
        let w = std::mem::ManuallyDrop::new(pk.write_encoded_partition_key(&mut |chunk: &[u8]| stream.extend_from_slice(chunk)));
        assert!(w.is_ok());

        // spec
        let mut expect: Vec<u8> = Vec::new();
        if NPK == 1 {
            let mk = marker_of_seq[0] as usize;
            expect.extend_from_slice(&vals[mk][..lens[mk]]);
        } else {
            let mut s = 0;
            while s < NPK {
                let mk = marker_of_seq[s] as usize;
                expect.push(0);
                expect.push(lens[mk] as u8);
                expect.extend_from_slice(&vals[mk][..lens[mk]]);
                expect.push(0);
                s += 1;
            }
        }
        assert!(stream == expect, "hashed stream = key components in partition-key order, CQL composite layout");
    }

    #[kani::proof]
    #[kani::unwind(8)]
    #[kani::stub(std::rt::thread_cleanup, noop)]
    #[kani::stub(alloc::fmt::format, empty_string)]
    fn c03_pk_layout_single() { check_layout::<1>(); }

    #[kani::proof]
    #[kani::unwind(8)]
    #[kani::stub(std::rt::thread_cleanup, noop)]
    #[kani::stub(alloc::fmt::format, empty_string)]
    fn c03_pk_layout_two() { check_layout::<2>(); }

    #[kani::proof]
    #[kani::unwind(8)]
    #[kani::stub(std::rt::thread_cleanup, noop)]
    #[kani::stub(alloc::fmt::format, empty_string)]
    fn c03_pk_layout_three() { check_layout::<3>(); }
}
