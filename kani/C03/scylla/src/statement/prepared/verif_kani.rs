// C03 — partition-key extraction and layout: the byte stream handed to the partitioner's hasher.
#![allow(dead_code, unused_imports)]
mod c03pk {
    use super::super::*;
    use scylla_cql::frame::response::result::{ColumnSpec, ColumnType, NativeType, PartitionKeyIndex, PreparedMetadata, TableSpec};
    use scylla_cql::serialize::row::SerializedValues;

    fn noop() {}
    fn empty_string(_a: std::fmt::Arguments<'_>) -> String { String::new() }

    const MARKERS: usize = 4; // bind markers in the statement
    const MAXLEN: usize = 2; // bytes per bound value

    /// Statement with 4 bind markers (blob columns). The partition-key columns sit at the given markers, in the given
    /// partition-key order (`marker_of_seq[s]` = marker of key component s); `pk_indexes` is sorted by marker index, as
    /// `deser_prepared_metadata` guarantees. Bound values: marker m gets `lens[m]` arbitrary bytes. The stream written for
    /// hashing must be: the single key's bytes, or for a composite key  be16(len) ++ bytes ++ 0x00  per component in
    /// PARTITION-KEY order. Placement and lengths are concrete (enumerated by the harnesses), bytes symbolic: buffers of
    /// symbolic length are out of CBMC's reach here (> 6 GB per case measured).
    fn case(marker_of_seq: &[u16], lens: [usize; MARKERS]) {
        let npk = marker_of_seq.len();
        let vals: [[u8; MAXLEN]; MARKERS] = kani::any();
        let mut sv = SerializedValues::new();
        let typ = std::mem::ManuallyDrop::new(ColumnType::Native(NativeType::Blob));
        let typ: &ColumnType = &typ;
        let mut m = 0;
        while m < MARKERS {
            assert!(std::mem::ManuallyDrop::new(sv.add_value(&&vals[m][..lens[m]], typ)).is_ok());
            m += 1;
        }
        let mut pk_indexes: Vec<PartitionKeyIndex> = Vec::new();
        let mut idx = 0u16;
        while (idx as usize) < MARKERS {
            let mut s = 0;
            while s < npk {
                if marker_of_seq[s] == idx {
                    pk_indexes.push(PartitionKeyIndex { index: idx, sequence: s as u16 });
                }
                s += 1;
            }
            idx += 1;
        }
        let ts = TableSpec::borrowed("ks", "t");
        let col_specs: Vec<ColumnSpec<'static>> = vec![
            ColumnSpec::borrowed("c0", typ.clone(), ts.clone()), ColumnSpec::borrowed("c1", typ.clone(), ts.clone()),
            ColumnSpec::borrowed("c2", typ.clone(), ts.clone()), ColumnSpec::borrowed("c3", typ.clone(), ts.clone()),
        ];
        let meta = std::mem::ManuallyDrop::new(PreparedMetadata { flags: 0, col_count: MARKERS, pk_indexes, col_specs });
        let meta: &PreparedMetadata = &meta;
        let pk = std::mem::ManuallyDrop::new(PartitionKey::new(meta, &sv));
        let pk = match &*pk { Ok(p) => p, Err(_) => { assert!(false, "key extraction succeeds"); return; } };
        let mut stream: Vec<u8> = Vec::new();
        let w = std::mem::ManuallyDrop::new(pk.write_encoded_partition_key(&mut |chunk: &[u8]| stream.extend_from_slice(chunk)));
        assert!(w.is_ok());
        let mut expect: Vec<u8> = Vec::new();
        if npk == 1 {
            let mk = marker_of_seq[0] as usize;
            expect.extend_from_slice(&vals[mk][..lens[mk]]);
        } else {
            let mut s = 0;
            while s < npk {
                let mk = marker_of_seq[s] as usize;
                expect.push(0);
                expect.push(lens[mk] as u8);
                expect.extend_from_slice(&vals[mk][..lens[mk]]);
                expect.push(0);
                s += 1;
            }
        }
        assert!(stream == expect, "hashed stream = key components in partition-key order, CQL composite layout");
    }

    macro_rules! pk_case {
        ($name:ident, [$($m:expr),*], $lens:expr) => {
            #[kani::proof]
            #[kani::unwind(20)]
            #[kani::stub(std::rt::thread_cleanup, noop)]
            #[kani::stub(alloc::fmt::format, empty_string)]
            fn $name() { case(&[$($m),*], $lens); }
        };
    }
    // single key column at the first / last marker
    pk_case!(c03_pk_single_first, [0], [2, 1, 1, 1]);
    pk_case!(c03_pk_single_last, [3], [1, 1, 1, 2]);
    // two key columns: in marker order, and swapped (bind markers in the opposite order of the key)
    pk_case!(c03_pk_two_in_order, [0, 2], [1, 2, 2, 0]);
    pk_case!(c03_pk_two_swapped, [3, 1], [2, 1, 2, 1]);
    // three key columns: rotated and fully reversed marker order, one non-key marker interleaved
    pk_case!(c03_pk_three_rotated, [2, 0, 3], [1, 2, 2, 1]);
    pk_case!(c03_pk_three_reversed, [3, 2, 0], [2, 1, 0, 1]);
    // four key columns, reversed
    pk_case!(c03_pk_four_reversed, [3, 2, 1, 0], [1, 1, 1, 1]);
}
