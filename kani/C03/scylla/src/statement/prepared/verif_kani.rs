// C03 — partition-key extraction and layout: the byte stream handed to the partitioner's hasher.
#![allow(dead_code, unused_imports)]
mod c03pk {
    use super::super::*;
    use scylla_cql::frame::response::result::{ColumnSpec, ColumnType, NativeType, PartitionKeyIndex, PreparedMetadata, TableSpec};
    use scylla_cql::serialize::row::SerializedValues;

    fn noop() {}
    fn empty_string(_a: std::fmt::Arguments<'_>) -> String { String::new() }

    const MARKERS: usize = 4; // bind markers in the statement
    const MAXLEN: usize = 2; // bytes per bound value

    /// Statement with 4 bind markers (blob columns). The partition-key columns sit at the given markers, in the given
    /// partition-key order (`marker_of_seq[s]` = marker of key component s); `pk_indexes` is sorted by marker index, as
    /// `deser_prepared_metadata` guarantees. Bound values: marker m gets `lens[m]` arbitrary bytes. The stream written for
    /// hashing must be: the single key's bytes, or for a composite key  be16(len) ++ bytes ++ 0x00  per component in
    /// PARTITION-KEY order. Placement and lengths are concrete (enumerated by the harnesses), bytes symbolic: buffers of
    /// symbolic length are out of CBMC's reach here (> 6 GB per case measured).
    fn case(marker_of_seq: &[u16], lens: [usize; MARKERS]) {
        let npk = marker_of_seq.len();
        let vals: [[u8; MAXLEN]; MARKERS] = kani::any();
        let mut sv = SerializedValues::new();
        let typ = std::mem::ManuallyDrop::new(ColumnType::Native(NativeType::Blob));
        let typ: &ColumnType = &typ;
        let mut m = 0;
        while m < MARKERS {
            assert!(std::mem::ManuallyDrop::new(sv.add_value(&&vals[m][..lens[m]], typ)).is_ok());
            m += 1;
        }
        let mut pk_indexes: Vec<PartitionKeyIndex> = Vec::new();
        let mut idx = 0u16;
        while (idx as usize) < MARKERS {
            let mut s = 0;
            while s < npk {
                if marker_of_seq[s] == idx {
                    pk_indexes.push(PartitionKeyIndex { index: idx, sequence: s as u16 });
                }
                s += 1;
            }
            idx += 1;
        }
        let ts = TableSpec::borrowed("ks", "t");
        let col_specs: Vec<ColumnSpec<'static>> = vec![
            ColumnSpec::borrowed("c0", typ.clone(), ts.clone()), ColumnSpec::borrowed("c1", typ.clone(), ts.clone()),
            ColumnSpec::borrowed("c2", typ.clone(), ts.clone()), ColumnSpec::borrowed("c3", typ.clone(), ts.clone()),
        ];
        let meta = std::mem::ManuallyDrop::new(PreparedMetadata { flags: 0, col_count: MARKERS, pk_indexes, col_specs });
        let meta: &PreparedMetadata = &meta;
        let pk = std::mem::ManuallyDrop::new(PartitionKey::new(meta, &sv));
        let pk = match &*pk { Ok(p) => p, Err(_) => { assert!(false, "key extraction succeeds"); return; } };
        let mut stream: Vec<u8> = Vec::new();
        let w = std::mem::ManuallyDrop::new(pk.write_encoded_partition_key(&mut |chunk: &[u8]| stream.extend_from_slice(chunk)));
        assert!(w.is_ok());
        let mut expect: Vec<u8> = Vec::new();
        if npk == 1 {
            let mk = marker_of_seq[0] as usize;
            expect.extend_from_slice(&vals[mk][..lens[mk]]);
        } else {
            let mut s = 0;
            while s < npk {
                let mk = marker_of_seq[s] as usize;
                expect.push(0);
                expect.push(lens[mk] as u8);
                expect.extend_from_slice(&vals[mk][..lens[mk]]);
                expect.push(0);
                s += 1;
            }
        }
        assert!(stream == expect, "hashed stream = key components in partition-key order, CQL composite layout");
    }

    macro_rules! pk_case {
        ($name:ident, [$($m:expr),*], $lens:expr) => {
            #[kani::proof]
            #[kani::unwind(20)]
            #[kani::stub(std::rt::thread_cleanup, noop)]
            #[kani::stub(alloc::fmt::format, empty_string)]
            fn $name() { case(&[$($m),*], $lens); }
        };
    }
    // single key column at the first / last marker
    pk_case!(c03_pk_single_first, [0], [2, 1, 1, 1]);
    pk_case!(c03_pk_single_last, [3], [1, 1, 1, 2]);
    // two key columns: in marker order, and swapped (bind markers in the opposite order of the key)
    pk_case!(c03_pk_two_in_order, [0, 2], [1, 2, 2, 0]);
    pk_case!(c03_pk_two_swapped, [3, 1], [2, 1, 2, 1]);
    // three key columns: rotated and fully reversed marker order, one non-key marker interleaved
    pk_case!(c03_pk_three_rotated, [2, 0, 3], [1, 2, 2, 1]);
    pk_case!(c03_pk_three_reversed, [3, 2, 0], [2, 1, 0, 1]);
    // four key columns, reversed
    pk_case!(c03_pk_four_reversed, [3, 2, 1, 0], [1, 1, 1, 1]);

    // ---- the same obligation cut in two at the PartitionKey value (contract of `new` = assumption of the writer) ----
    // (1) PartitionKey::new: slot s of the key holds the bound value of the marker that carries key component s, with
    //     that marker's column spec - for the placement given. Nothing is hashed or written here.
    fn new_case(marker_of_seq: &[u16], lens: [usize; MARKERS]) {
        let npk = marker_of_seq.len();
        let vals: [[u8; MAXLEN]; MARKERS] = kani::any();
        let mut sv = SerializedValues::new();
        let typ = std::mem::ManuallyDrop::new(ColumnType::Native(NativeType::Blob));
        let typ: &ColumnType = &typ;
        let mut m = 0;
        while m < MARKERS {
            assert!(std::mem::ManuallyDrop::new(sv.add_value(&&vals[m][..lens[m]], typ)).is_ok());
            m += 1;
        }
        let mut pk_indexes: Vec<PartitionKeyIndex> = Vec::new();
        let mut idx = 0u16;
        while (idx as usize) < MARKERS {
            let mut s = 0;
            while s < npk {
                if marker_of_seq[s] == idx {
                    pk_indexes.push(PartitionKeyIndex { index: idx, sequence: s as u16 });
                }
                s += 1;
            }
            idx += 1;
        }
        let ts = TableSpec::borrowed("ks", "t");
        let col_specs: Vec<ColumnSpec<'static>> = vec![
            ColumnSpec::borrowed("c0", typ.clone(), ts.clone()), ColumnSpec::borrowed("c1", typ.clone(), ts.clone()),
            ColumnSpec::borrowed("c2", typ.clone(), ts.clone()), ColumnSpec::borrowed("c3", typ.clone(), ts.clone()),
        ];
        let meta = std::mem::ManuallyDrop::new(PreparedMetadata { flags: 0, col_count: MARKERS, pk_indexes, col_specs });
        let meta: &PreparedMetadata = &meta;
        let pk = std::mem::ManuallyDrop::new(PartitionKey::new(meta, &sv));
        let pk = match &*pk { Ok(p) => p, Err(_) => { assert!(false, "key extraction succeeds"); return; } };
        assert!(pk.pk_values.len() == npk, "one slot per key component");
        let mut s = 0;
        while s < npk {
            let mk = marker_of_seq[s] as usize;
            match pk.pk_values[s] {
                Some((v, spec)) => {
                    assert!(v.len() == lens[mk], "slot s holds the value bound to the marker of key component s (length)");
                    let mut i = 0;
                    while i < lens[mk] {
                        assert!(v[i] == vals[mk][i], "slot s holds the value bound to the marker of key component s (bytes)");
                        i += 1;
                    }
                    assert!(std::ptr::eq(spec, &meta.col_specs[mk]), "slot s carries the column spec of that marker");
                }
                None => assert!(false, "every bound key component is present"),
            }
            s += 1;
        }
    }

    macro_rules! pk_new_case {
        ($name:ident, [$($m:expr),*], $lens:expr) => {
            #[kani::proof]
            #[kani::unwind(8)]
            #[kani::stub(std::rt::thread_cleanup, noop)]
            #[kani::stub(alloc::fmt::format, empty_string)]
            fn $name() { new_case(&[$($m),*], $lens); }
        };
    }
    pk_new_case!(c03_pk_new_two_in_order, [0, 2], [1, 2, 2, 0]);
    pk_new_case!(c03_pk_new_two_swapped, [3, 1], [2, 1, 2, 1]);
    pk_new_case!(c03_pk_new_three_rotated, [2, 0, 3], [1, 2, 2, 1]);
    pk_new_case!(c03_pk_new_three_reversed, [3, 2, 0], [2, 1, 0, 1]);
    pk_new_case!(c03_pk_new_four_reversed, [3, 2, 1, 0], [1, 1, 1, 1]);

    // (2) write_encoded_partition_key on a PartitionKey as (1) leaves it: k present components (an absent one in between
    //     is skipped), symbolic bytes, concrete lengths => the chunks handed to the hasher concatenate to
    //     be16(len) ++ bytes ++ 0x00 per component in slot order.
    struct Sink { out: [u8; 32], n: usize }
    fn write_case<const K: usize>(lens: [usize; K], hole_after: Option<usize>) {
        let vals: [[u8; 3]; K] = kani::any();
        let typ = std::mem::ManuallyDrop::new(ColumnType::Native(NativeType::Blob));
        let ts = TableSpec::borrowed("ks", "t");
        let spec = std::mem::ManuallyDrop::new(ColumnSpec::borrowed("c", (*typ).clone(), ts));
        let spec: &ColumnSpec = &spec;
        let mut pk_values: SmallVec<[Option<PartitionKeyValue<'_>>; PartitionKey::SMALLVEC_ON_STACK_SIZE]> = SmallVec::new();
        let mut s = 0;
        while s < K {
            pk_values.push(Some((&vals[s][..lens[s]], spec)));
            if hole_after == Some(s) { pk_values.push(None); }
            s += 1;
        }
        let pk = std::mem::ManuallyDrop::new(PartitionKey { pk_values });
        let mut sink = Sink { out: [0u8; 32], n: 0 };
        let w = std::mem::ManuallyDrop::new(pk.write_encoded_partition_key(&mut |chunk: &[u8]| {
            let mut i = 0;
            while i < chunk.len() { sink.out[sink.n] = chunk[i]; sink.n += 1; i += 1; }
        }));
        assert!(w.is_ok());
        let mut at = 0;
        let mut s = 0;
        while s < K {
            assert!(sink.out[at] == 0 && sink.out[at + 1] == lens[s] as u8, "component s starts with its big-endian u16 length");
            let mut i = 0;
            while i < lens[s] {
                assert!(sink.out[at + 2 + i] == vals[s][i], "then its bytes");
                i += 1;
            }
            assert!(sink.out[at + 2 + lens[s]] == 0, "then one zero byte");
            at += 3 + lens[s];
            s += 1;
        }
        assert!(sink.n == at, "nothing else is hashed");
    }
    macro_rules! pk_write_case {
        ($name:ident, $k:expr, $lens:expr, $hole:expr) => {
            #[kani::proof]
            #[kani::unwind(8)]
            #[kani::stub(std::rt::thread_cleanup, noop)]
            #[kani::stub(alloc::fmt::format, empty_string)]
            fn $name() { write_case::<$k>($lens, $hole); }
        };
    }
    pk_write_case!(c03_pk_write_two, 2, [1, 2], None);
    pk_write_case!(c03_pk_write_three, 3, [2, 0, 1], None);
    pk_write_case!(c03_pk_write_three_hole, 3, [1, 3, 2], Some(0));
    pk_write_case!(c03_pk_write_four, 4, [1, 1, 0, 3], None);
}
