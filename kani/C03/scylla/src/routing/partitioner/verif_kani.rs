// C03 — routing token == server-side partitioner's token. Real hashers vs an independent reference.
#![allow(dead_code, unused_imports)]
mod c03 {
    use super::super::*;

    fn noop() {}

    // ------------------------------------------------------------------ reference: Cassandra MurmurHash.hash3_x64_128
    // Transcribed from the Java definition (whole array, `(long) key[i]` sign-extends the tail bytes, getblock is
    // little-endian, result = h1), then Murmur3Partitioner.normalize (Long.MIN_VALUE -> Long.MAX_VALUE).
    fn rotl(v: u64, n: u32) -> u64 { (v << n) | (v >> (64 - n)) }
    fn fmix(mut k: u64) -> u64 {
        k ^= k >> 33;
        k = k.wrapping_mul(0xff51afd7ed558ccd);
        k ^= k >> 33;
        k = k.wrapping_mul(0xc4ceb9fe1a85ec53);
        k ^= k >> 33;
        k
    }
    fn getblock(key: &[u8], off: usize) -> u64 {
        (key[off] as u64) | ((key[off + 1] as u64) << 8) | ((key[off + 2] as u64) << 16) | ((key[off + 3] as u64) << 24)
            | ((key[off + 4] as u64) << 32) | ((key[off + 5] as u64) << 40) | ((key[off + 6] as u64) << 48) | ((key[off + 7] as u64) << 56)
    }
    pub(super) fn spec_murmur3_token(key: &[u8]) -> i64 {
        const C1: u64 = 0x87c37b91114253d5;
        const C2: u64 = 0x4cf5ad432745937f;
        let length = key.len();
        let nblocks = length >> 4;
        let (mut h1, mut h2) = (0u64, 0u64);
        let mut i = 0;
        while i < nblocks {
            let mut k1 = getblock(key, i * 16);
            let mut k2 = getblock(key, i * 16 + 8);
            k1 = k1.wrapping_mul(C1); k1 = rotl(k1, 31); k1 = k1.wrapping_mul(C2); h1 ^= k1;
            h1 = rotl(h1, 27); h1 = h1.wrapping_add(h2); h1 = h1.wrapping_mul(5).wrapping_add(0x52dce729);
            k2 = k2.wrapping_mul(C2); k2 = rotl(k2, 33); k2 = k2.wrapping_mul(C1); h2 ^= k2;
            h2 = rotl(h2, 31); h2 = h2.wrapping_add(h1); h2 = h2.wrapping_mul(5).wrapping_add(0x38495ab5);
            i += 1;
        }
        let off = nblocks * 16;
        let rem = length & 15;
        let (mut k1, mut k2) = (0u64, 0u64);
        // Java: ((long) key[offset + j]) << (8 * (j - 8)) — a signed byte, sign-extended to 64 bits
        let sb = |j: usize| -> u64 { (key[off + j] as i8) as i64 as u64 };
        if rem >= 15 { k2 ^= sb(14) << 48; }
        if rem >= 14 { k2 ^= sb(13) << 40; }
        if rem >= 13 { k2 ^= sb(12) << 32; }
        if rem >= 12 { k2 ^= sb(11) << 24; }
        if rem >= 11 { k2 ^= sb(10) << 16; }
        if rem >= 10 { k2 ^= sb(9) << 8; }
        if rem >= 9 {
            k2 ^= sb(8);
            k2 = k2.wrapping_mul(C2); k2 = rotl(k2, 33); k2 = k2.wrapping_mul(C1); h2 ^= k2;
        }
        if rem >= 8 { k1 ^= sb(7) << 56; }
        if rem >= 7 { k1 ^= sb(6) << 48; }
        if rem >= 6 { k1 ^= sb(5) << 40; }
        if rem >= 5 { k1 ^= sb(4) << 32; }
        if rem >= 4 { k1 ^= sb(3) << 24; }
        if rem >= 3 { k1 ^= sb(2) << 16; }
        if rem >= 2 { k1 ^= sb(1) << 8; }
        if rem >= 1 {
            k1 ^= sb(0);
            k1 = k1.wrapping_mul(C1); k1 = rotl(k1, 31); k1 = k1.wrapping_mul(C2); h1 ^= k1;
        }
        h1 ^= length as u64; h2 ^= length as u64;
        h1 = h1.wrapping_add(h2); h2 = h2.wrapping_add(h1);
        h1 = fmix(h1); h2 = fmix(h2);
        h1 = h1.wrapping_add(h2);
        let t = h1 as i64;
        if t == i64::MIN { i64::MAX } else { t }
    }

    // ------------------------------------------------------------------ obligations
    /// any reachable hasher state: buf holds the `total_len % 16` bytes not yet mixed in
    fn any_state() -> Murmur3PartitionerHasher {
        let total_len: usize = kani::any();
        kani::assume(total_len < (1usize << 40));
        Murmur3PartitionerHasher {
            total_len,
            buf: kani::any(),
            h1: std::num::Wrapping(kani::any()),
            h2: std::num::Wrapping(kani::any()),
        }
    }
    fn same_state(a: &Murmur3PartitionerHasher, b: &Murmur3PartitionerHasher) -> bool {
        if !(a.total_len == b.total_len && a.h1 == b.h1 && a.h2 == b.h2) {
            return false;
        }
        let n = a.total_len % 16;
        let mut i = 0;
        while i < 16 {
            if i < n && a.buf[i] != b.buf[i] {
                return false;
            }
            i += 1;
        }
        true
    }

    /// C03.murmur3.chunking_step(N): from ANY hasher state, writing an N-byte chunk at once leaves the same
    /// state (and the same token) as writing its bytes one at a time. By induction over chunks the result
    /// never depends on how the key bytes are chunked.
    macro_rules! step_case {
        ($name:ident, $n:expr) => {
            #[kani::proof]
            #[kani::unwind(36)]
            #[kani::stub(std::rt::thread_cleanup, noop)]
            fn $name() {
                let a0 = any_state();
                let mut a = Murmur3PartitionerHasher { total_len: a0.total_len, buf: a0.buf, h1: a0.h1, h2: a0.h2 };
                let mut b = a0;
                let chunk: [u8; $n] = kani::any();
                a.write(&chunk);
                let mut i = 0;
                while i < $n {
                    b.write(&chunk[i..i + 1]);
                    i += 1;
                }
                assert!(same_state(&a, &b), "state independent of chunking");
                assert!(a.finish() == b.finish(), "token independent of chunking");
            }
        };
    }
    step_case!(c03_step_n00, 0);
    step_case!(c03_step_n01, 1);
    step_case!(c03_step_n02, 2);
    step_case!(c03_step_n03, 3);
    step_case!(c03_step_n04, 4);
    step_case!(c03_step_n05, 5);
    step_case!(c03_step_n06, 6);
    step_case!(c03_step_n07, 7);
    step_case!(c03_step_n08, 8);
    step_case!(c03_step_n09, 9);
    step_case!(c03_step_n10, 10);
    step_case!(c03_step_n11, 11);
    step_case!(c03_step_n12, 12);
    step_case!(c03_step_n13, 13);
    step_case!(c03_step_n14, 14);
    step_case!(c03_step_n15, 15);
    step_case!(c03_step_n16, 16);
    step_case!(c03_step_n17, 17);
    step_case!(c03_step_n31, 31);
    step_case!(c03_step_n32, 32);
    step_case!(c03_step_n33, 33);

    /// C03.murmur3.spec(L): for every byte string of length L (all values, incl. bytes >= 0x80) the real
    /// streaming hasher returns Cassandra's token.
    macro_rules! spec_case {
        ($name:ident, $n:expr) => {
            #[kani::proof]
            #[kani::unwind(20)]
            #[kani::solver(cvc5)]
            #[kani::stub(std::rt::thread_cleanup, noop)]
            fn $name() {
                let key: [u8; $n] = kani::any();
                let t = Murmur3Partitioner.hash_one(&key);
                assert!(t.value() == spec_murmur3_token(&key), "token == Cassandra Murmur3 token");
            }
        };
    }
    spec_case!(c03_spec_len00, 0);
    spec_case!(c03_spec_len01, 1);
    spec_case!(c03_spec_len02, 2);
    spec_case!(c03_spec_len03, 3);
    spec_case!(c03_spec_len04, 4);
    spec_case!(c03_spec_len05, 5);
    spec_case!(c03_spec_len06, 6);
    spec_case!(c03_spec_len07, 7);
    spec_case!(c03_spec_len08, 8);
    spec_case!(c03_spec_len09, 9);
    spec_case!(c03_spec_len10, 10);
    spec_case!(c03_spec_len11, 11);
    spec_case!(c03_spec_len12, 12);
    spec_case!(c03_spec_len13, 13);
    spec_case!(c03_spec_len14, 14);
    spec_case!(c03_spec_len15, 15);
    spec_case!(c03_spec_len16, 16);
    spec_case!(c03_spec_len17, 17);
    spec_case!(c03_spec_len31, 31);
    spec_case!(c03_spec_len32, 32);
    spec_case!(c03_spec_len33, 33);
    // thorough tier
    spec_case!(c03_spec_len47, 47);
    spec_case!(c03_spec_len48, 48);
    spec_case!(c03_spec_len49, 49);
    spec_case!(c03_spec_len64, 64);
    spec_case!(c03_spec_len65, 65);

    /// C03.token_new — Long.MIN_VALUE is mapped to Long.MAX_VALUE, everything else unchanged
    #[kani::proof]
    fn c03_token_new() {
        let v: i64 = kani::any();
        let t = Token::new(v);
        assert!(t.value() == if v == i64::MIN { i64::MAX } else { v });
    }

    /// C03.cdc — CDC partitioner: token = first 8 bytes big-endian (normalised) once 8 bytes were seen,
    /// independent of chunking; fewer than 8 bytes => the invalid (minimum) token.
    #[kani::proof]
    #[kani::unwind(12)]
    #[kani::stub(std::rt::thread_cleanup, noop)]
    fn c03_cdc_token() {
        let key: [u8; 10] = kani::any();
        let len: usize = kani::any();
        kani::assume(len <= 10);
        let c1: usize = kani::any();
        let c2: usize = kani::any();
        kani::assume(c1 <= c2 && c2 <= len);
        let mut h = CDCPartitioner.build_hasher();
        h.write(&key[..c1]);
        h.write(&key[c1..c2]);
        h.write(&key[c2..len]);
        let t = h.finish();
        if len >= 8 {
            let v = i64::from_be_bytes([key[0], key[1], key[2], key[3], key[4], key[5], key[6], key[7]]);
            assert!(t.value() == if v == i64::MIN { i64::MAX } else { v });
        } else {
            assert!(t.value() == i64::MIN, "too short: ScyllaDB's minimum token");
        }
        let one = CDCPartitioner.hash_one(&key[..len]);
        assert!(one == t, "chunking does not matter");
    }

    /// C03.partitioner_name — the CDC partitioner is selected exactly for names ending in CDCPartitioner
    #[kani::proof]
    #[kani::unwind(30)]
    #[kani::stub(std::rt::thread_cleanup, noop)]
    fn c03_partitioner_name() {
        assert!(PartitionerName::from_str("org.apache.cassandra.dht.Murmur3Partitioner") == Some(PartitionerName::Murmur3));
        assert!(PartitionerName::from_str("com.scylladb.dht.CDCPartitioner") == Some(PartitionerName::CDC));
        assert!(PartitionerName::from_str("org.apache.cassandra.dht.RandomPartitioner") == None);
    }

    /// canary: the reference is not the unsigned-byte MurmurHash3 (0x80 in the tail must matter)
    #[kani::proof]
    #[kani::unwind(20)]
    #[kani::should_panic]
    #[kani::stub(std::rt::thread_cleanup, noop)]
    fn c03_canary_token_is_zero() {
        let key: [u8; 3] = kani::any();
        assert!(Murmur3Partitioner.hash_one(&key).value() == 0);
    }
}
