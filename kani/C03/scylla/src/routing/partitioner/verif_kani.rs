// C03 — routing token == server-side partitioner's token. Real hashers vs an independent reference.
#![allow(dead_code, unused_imports)]
mod c03 {
    use super::super::*;

    fn noop() {}

    // ------------------------------------------------------------------ reference: Cassandra MurmurHash.hash3_x64_128
    // Transcribed from the Java definition (whole array, `(long) key[i]` sign-extends the tail bytes, getblock is
    // little-endian, result = h1), then Murmur3Partitioner.normalize (Long.MIN_VALUE -> Long.MAX_VALUE).
    fn rotl(v: u64, n: u32) -> u64 { (v << n) | (v >> (64 - n)) }
    fn fmix(mut k: u64) -> u64 {
        k ^= k >> 33;
        k = k.wrapping_mul(0xff51afd7ed558ccd);
        k ^= k >> 33;
        k = k.wrapping_mul(0xc4ceb9fe1a85ec53);
        k ^= k >> 33;
        k
    }
    fn getblock(key: &[u8], off: usize) -> u64 {
        (key[off] as u64) | ((key[off + 1] as u64) << 8) | ((key[off + 2] as u64) << 16) | ((key[off + 3] as u64) << 24)
            | ((key[off + 4] as u64) << 32) | ((key[off + 5] as u64) << 40) | ((key[off + 6] as u64) << 48) | ((key[off + 7] as u64) << 56)
    }
    const C1: u64 = 0x87c37b91114253d5;
    const C2: u64 = 0x4cf5ad432745937f;
    /// body of the block loop of hash3_x64_128: mixes one 16-byte block (k1, k2) into (h1, h2)
    /// (= `spec_mix` of verus/c03_murmur3_stream.vrs)
    fn ref_mix(mut h1: u64, mut h2: u64, mut k1: u64, mut k2: u64) -> (u64, u64) {
        k1 = k1.wrapping_mul(C1); k1 = rotl(k1, 31); k1 = k1.wrapping_mul(C2); h1 ^= k1;
        h1 = rotl(h1, 27); h1 = h1.wrapping_add(h2); h1 = h1.wrapping_mul(5).wrapping_add(0x52dce729);
        k2 = k2.wrapping_mul(C2); k2 = rotl(k2, 33); k2 = k2.wrapping_mul(C1); h2 ^= k2;
        h2 = rotl(h2, 31); h2 = h2.wrapping_add(h1); h2 = h2.wrapping_mul(5).wrapping_add(0x38495ab5);
        (h1, h2)
    }
    /// everything after the block loop: the `switch (length & 15)` over the tail bytes, the length, fmix, and
    /// Murmur3Partitioner.normalize (= `spec_finish` of the Verus unit). `tail` = the bytes after the last whole block.
    fn ref_finish(mut h1: u64, mut h2: u64, tail: &[u8], length: u64) -> i64 {
        let rem = tail.len();
        let (mut k1, mut k2) = (0u64, 0u64);
        // Java: ((long) key[offset + j]) << (8 * (j - 8)) — a signed byte, sign-extended to 64 bits
        let sb = |j: usize| -> u64 { (tail[j] as i8) as i64 as u64 };
        if rem >= 15 { k2 ^= sb(14) << 48; }
        if rem >= 14 { k2 ^= sb(13) << 40; }
        if rem >= 13 { k2 ^= sb(12) << 32; }
        if rem >= 12 { k2 ^= sb(11) << 24; }
        if rem >= 11 { k2 ^= sb(10) << 16; }
        if rem >= 10 { k2 ^= sb(9) << 8; }
        if rem >= 9 {
            k2 ^= sb(8);
            k2 = k2.wrapping_mul(C2); k2 = rotl(k2, 33); k2 = k2.wrapping_mul(C1); h2 ^= k2;
        }
        if rem >= 8 { k1 ^= sb(7) << 56; }
        if rem >= 7 { k1 ^= sb(6) << 48; }
        if rem >= 6 { k1 ^= sb(5) << 40; }
        if rem >= 5 { k1 ^= sb(4) << 32; }
        if rem >= 4 { k1 ^= sb(3) << 24; }
        if rem >= 3 { k1 ^= sb(2) << 16; }
        if rem >= 2 { k1 ^= sb(1) << 8; }
        if rem >= 1 {
            k1 ^= sb(0);
            k1 = k1.wrapping_mul(C1); k1 = rotl(k1, 31); k1 = k1.wrapping_mul(C2); h1 ^= k1;
        }
        h1 ^= length; h2 ^= length;
        h1 = h1.wrapping_add(h2); h2 = h2.wrapping_add(h1);
        h1 = fmix(h1); h2 = fmix(h2);
        h1 = h1.wrapping_add(h2);
        let t = h1 as i64;
        if t == i64::MIN { i64::MAX } else { t }
    }
    /// the whole reference: block loop (`spec_token` of the Verus unit is this fold), then the finalisation
    pub(super) fn spec_murmur3_token(key: &[u8]) -> i64 {
        let length = key.len();
        let nblocks = length >> 4;
        let (mut h1, mut h2) = (0u64, 0u64);
        let mut i = 0;
        while i < nblocks {
            let k1 = getblock(key, i * 16);
            let k2 = getblock(key, i * 16 + 8);
            (h1, h2) = ref_mix(h1, h2, k1, k2);
            i += 1;
        }
        ref_finish(h1, h2, &key[nblocks * 16..], length as u64)
    }

    // ------------------------------------------------------------------ the three fixed-size pieces the Verus unit assumes
    // (verus/c03_murmur3_stream.vrs proves, for all lengths and chunkings, that `write`/`finish` compute the fold of
    //  these pieces; here each piece of the REAL code is compared with the reference over its full domain)
    /// one block: every (h1, h2, k1, k2); nothing else of the hasher changes
    #[kani::proof]
    #[kani::solver(cvc5)]
    #[kani::stub(std::rt::thread_cleanup, noop)]
    fn c03_block_mix() {
        let (h1, h2, k1, k2): (i64, i64, i64, i64) = (kani::any(), kani::any(), kani::any(), kani::any());
        let total_len: usize = kani::any();
        let buf: [u8; 16] = kani::any();
        let mut h = Murmur3PartitionerHasher { total_len, buf, h1: Wrapping(h1), h2: Wrapping(h2) };
        h.hash_16_bytes(Wrapping(k1), Wrapping(k2));
        let (r1, r2) = ref_mix(h1 as u64, h2 as u64, k1 as u64, k2 as u64);
        assert!(h.h1.0 as u64 == r1 && h.h2.0 as u64 == r2, "block mix == reference");
        assert!(h.total_len == total_len && h.buf == buf, "nothing else changes");
    }
    /// little-endian fetch: every 20 bytes; exactly 16 consumed
    #[kani::proof]
    #[kani::unwind(22)]
    #[kani::stub(std::rt::thread_cleanup, noop)]
    fn c03_fetch_le() {
        let raw: [u8; 20] = kani::any();
        let mut s = &raw[..];
        let (k1, k2) = Murmur3PartitionerHasher::fetch_16_bytes_from_buf(&mut s);
        assert!(k1.0 as u64 == getblock(&raw, 0) && k2.0 as u64 == getblock(&raw, 8), "two little-endian longs");
        assert!(s.len() == 4 && s[0] == raw[16] && s[3] == raw[19], "exactly 16 bytes consumed");
    }
    /// finalisation for tail length N: every (h1, h2), every buffer content; total length N, N + 16 * (2^36 + 5) and N + 2^63.
    /// (A symbolic total length keeps `total_len % 16`, hence the tail loops' bounds, symbolic: cvc5 then gave no answer in
    ///  15 min. The length enters `finish` only through that residue and one xor.)
    fn finish_tail<const N: usize>() {
        let (h1, h2): (i64, i64) = (kani::any(), kani::any());
        let buf: [u8; 16] = kani::any();
        // (two straight-line calls: iterating over an array of lengths crashes CBMC's SMT back end)
        let h = Murmur3PartitionerHasher { total_len: N, buf, h1: Wrapping(h1), h2: Wrapping(h2) };
        assert!(h.finish().value() == ref_finish(h1 as u64, h2 as u64, &buf[..N], N as u64), "finish == reference finalisation");
        let long = N + 16 * ((1usize << 36) + 5);
        let h = Murmur3PartitionerHasher { total_len: long, buf, h1: Wrapping(h1), h2: Wrapping(h2) };
        assert!(h.finish().value() == ref_finish(h1 as u64, h2 as u64, &buf[..N], long as u64), "finish == reference finalisation (long key)");
        let huge = N + (1usize << 63); // the length cast to i64 is negative
        let h = Murmur3PartitionerHasher { total_len: huge, buf, h1: Wrapping(h1), h2: Wrapping(h2) };
        assert!(h.finish().value() == ref_finish(h1 as u64, h2 as u64, &buf[..N], huge as u64), "finish == reference finalisation (length >= 2^63)");
    }
    macro_rules! finish_tails {
        ($($name:ident = $n:literal;)*) => {$(
            #[kani::proof]
            #[kani::unwind(18)]
            #[kani::solver(cvc5)]
            #[kani::stub(std::rt::thread_cleanup, noop)]
            fn $name() { finish_tail::<$n>(); }
        )*};
    }
    finish_tails! {
        c03_finish_tail_00 = 0; c03_finish_tail_01 = 1; c03_finish_tail_02 = 2; c03_finish_tail_03 = 3;
        c03_finish_tail_04 = 4; c03_finish_tail_05 = 5; c03_finish_tail_06 = 6; c03_finish_tail_07 = 7;
        c03_finish_tail_08 = 8; c03_finish_tail_09 = 9; c03_finish_tail_10 = 10; c03_finish_tail_11 = 11;
        c03_finish_tail_12 = 12; c03_finish_tail_13 = 13; c03_finish_tail_14 = 14; c03_finish_tail_15 = 15;
    }

    // ------------------------------------------------------------------ obligations
    /// C03.murmur3.two_chunks(L): for every byte string of length L and EVERY position at which it can be cut in two,
    /// feeding the two pieces one after the other yields Cassandra's token of the whole string — the buffer carry-over
    /// between `write` calls (fill, flush at 16, remainder) is exercised at every offset. (A formulation from an
    /// arbitrary symbolic hasher state was tried first: symbolic buffer offsets make CBMC need > 7 GB per case.)
    fn two_chunks(key: &[u8], cut: usize, want: i64) {
        let mut h = Murmur3Partitioner.build_hasher();
        h.write(&key[..cut]);
        h.write(&key[cut..]);
        assert!(h.finish().value() == want, "token independent of where the key is cut");
    }

    #[kani::proof]
    #[kani::unwind(36)]
    #[kani::solver(cvc5)]
    #[kani::stub(std::rt::thread_cleanup, noop)]
    fn c03_split_len00() {
        let key: [u8; 0] = kani::any();
        let want = spec_murmur3_token(&key);
        two_chunks(&key, 0, want);
    }

    #[kani::proof]
    #[kani::unwind(36)]
    #[kani::solver(cvc5)]
    #[kani::stub(std::rt::thread_cleanup, noop)]
    fn c03_split_len01() {
        let key: [u8; 1] = kani::any();
        let want = spec_murmur3_token(&key);
        two_chunks(&key, 0, want);
        two_chunks(&key, 1, want);
    }

    #[kani::proof]
    #[kani::unwind(36)]
    #[kani::solver(cvc5)]
    #[kani::stub(std::rt::thread_cleanup, noop)]
    fn c03_split_len02() {
        let key: [u8; 2] = kani::any();
        let want = spec_murmur3_token(&key);
        two_chunks(&key, 0, want);
        two_chunks(&key, 1, want);
        two_chunks(&key, 2, want);
    }

    #[kani::proof]
    #[kani::unwind(36)]
    #[kani::solver(cvc5)]
    #[kani::stub(std::rt::thread_cleanup, noop)]
    fn c03_split_len03() {
        let key: [u8; 3] = kani::any();
        let want = spec_murmur3_token(&key);
        two_chunks(&key, 0, want);
        two_chunks(&key, 1, want);
        two_chunks(&key, 2, want);
        two_chunks(&key, 3, want);
    }

    #[kani::proof]
    #[kani::unwind(36)]
    #[kani::solver(cvc5)]
    #[kani::stub(std::rt::thread_cleanup, noop)]
    fn c03_split_len04() {
        let key: [u8; 4] = kani::any();
        let want = spec_murmur3_token(&key);
        two_chunks(&key, 0, want);
        two_chunks(&key, 1, want);
        two_chunks(&key, 2, want);
        two_chunks(&key, 3, want);
        two_chunks(&key, 4, want);
    }

    #[kani::proof]
    #[kani::unwind(36)]
    #[kani::solver(cvc5)]
    #[kani::stub(std::rt::thread_cleanup, noop)]
    fn c03_split_len05() {
        let key: [u8; 5] = kani::any();
        let want = spec_murmur3_token(&key);
        two_chunks(&key, 0, want);
        two_chunks(&key, 1, want);
        two_chunks(&key, 2, want);
        two_chunks(&key, 3, want);
        two_chunks(&key, 4, want);
        two_chunks(&key, 5, want);
    }

    #[kani::proof]
    #[kani::unwind(36)]
    #[kani::solver(cvc5)]
    #[kani::stub(std::rt::thread_cleanup, noop)]
    fn c03_split_len06() {
        let key: [u8; 6] = kani::any();
        let want = spec_murmur3_token(&key);
        two_chunks(&key, 0, want);
        two_chunks(&key, 1, want);
        two_chunks(&key, 2, want);
        two_chunks(&key, 3, want);
        two_chunks(&key, 4, want);
        two_chunks(&key, 5, want);
        two_chunks(&key, 6, want);
    }

    #[kani::proof]
    #[kani::unwind(36)]
    #[kani::solver(cvc5)]
    #[kani::stub(std::rt::thread_cleanup, noop)]
    fn c03_split_len07() {
        let key: [u8; 7] = kani::any();
        let want = spec_murmur3_token(&key);
        two_chunks(&key, 0, want);
        two_chunks(&key, 1, want);
        two_chunks(&key, 2, want);
        two_chunks(&key, 3, want);
        two_chunks(&key, 4, want);
        two_chunks(&key, 5, want);
        two_chunks(&key, 6, want);
        two_chunks(&key, 7, want);
    }

    #[kani::proof]
    #[kani::unwind(36)]
    #[kani::solver(cvc5)]
    #[kani::stub(std::rt::thread_cleanup, noop)]
    fn c03_split_len08() {
        let key: [u8; 8] = kani::any();
        let want = spec_murmur3_token(&key);
        two_chunks(&key, 0, want);
        two_chunks(&key, 1, want);
        two_chunks(&key, 2, want);
        two_chunks(&key, 3, want);
        two_chunks(&key, 4, want);
        two_chunks(&key, 5, want);
        two_chunks(&key, 6, want);
        two_chunks(&key, 7, want);
        two_chunks(&key, 8, want);
    }

    #[kani::proof]
    #[kani::unwind(36)]
    #[kani::solver(cvc5)]
    #[kani::stub(std::rt::thread_cleanup, noop)]
    fn c03_split_len09() {
        let key: [u8; 9] = kani::any();
        let want = spec_murmur3_token(&key);
        two_chunks(&key, 0, want);
        two_chunks(&key, 1, want);
        two_chunks(&key, 2, want);
        two_chunks(&key, 3, want);
        two_chunks(&key, 4, want);
        two_chunks(&key, 5, want);
        two_chunks(&key, 6, want);
        two_chunks(&key, 7, want);
        two_chunks(&key, 8, want);
        two_chunks(&key, 9, want);
    }

    #[kani::proof]
    #[kani::unwind(36)]
    #[kani::solver(cvc5)]
    #[kani::stub(std::rt::thread_cleanup, noop)]
    fn c03_split_len10() {
        let key: [u8; 10] = kani::any();
        let want = spec_murmur3_token(&key);
        two_chunks(&key, 0, want);
        two_chunks(&key, 1, want);
        two_chunks(&key, 2, want);
        two_chunks(&key, 3, want);
        two_chunks(&key, 4, want);
        two_chunks(&key, 5, want);
        two_chunks(&key, 6, want);
        two_chunks(&key, 7, want);
        two_chunks(&key, 8, want);
        two_chunks(&key, 9, want);
        two_chunks(&key, 10, want);
    }

    #[kani::proof]
    #[kani::unwind(36)]
    #[kani::solver(cvc5)]
    #[kani::stub(std::rt::thread_cleanup, noop)]
    fn c03_split_len11() {
        let key: [u8; 11] = kani::any();
        let want = spec_murmur3_token(&key);
        two_chunks(&key, 0, want);
        two_chunks(&key, 1, want);
        two_chunks(&key, 2, want);
        two_chunks(&key, 3, want);
        two_chunks(&key, 4, want);
        two_chunks(&key, 5, want);
        two_chunks(&key, 6, want);
        two_chunks(&key, 7, want);
        two_chunks(&key, 8, want);
        two_chunks(&key, 9, want);
        two_chunks(&key, 10, want);
        two_chunks(&key, 11, want);
    }

    #[kani::proof]
    #[kani::unwind(36)]
    #[kani::solver(cvc5)]
    #[kani::stub(std::rt::thread_cleanup, noop)]
    fn c03_split_len12() {
        let key: [u8; 12] = kani::any();
        let want = spec_murmur3_token(&key);
        two_chunks(&key, 0, want);
        two_chunks(&key, 1, want);
        two_chunks(&key, 2, want);
        two_chunks(&key, 3, want);
        two_chunks(&key, 4, want);
        two_chunks(&key, 5, want);
        two_chunks(&key, 6, want);
        two_chunks(&key, 7, want);
        two_chunks(&key, 8, want);
        two_chunks(&key, 9, want);
        two_chunks(&key, 10, want);
        two_chunks(&key, 11, want);
        two_chunks(&key, 12, want);
    }

    #[kani::proof]
    #[kani::unwind(36)]
    #[kani::solver(cvc5)]
    #[kani::stub(std::rt::thread_cleanup, noop)]
    fn c03_split_len13() {
        let key: [u8; 13] = kani::any();
        let want = spec_murmur3_token(&key);
        two_chunks(&key, 0, want);
        two_chunks(&key, 1, want);
        two_chunks(&key, 2, want);
        two_chunks(&key, 3, want);
        two_chunks(&key, 4, want);
        two_chunks(&key, 5, want);
        two_chunks(&key, 6, want);
        two_chunks(&key, 7, want);
        two_chunks(&key, 8, want);
        two_chunks(&key, 9, want);
        two_chunks(&key, 10, want);
        two_chunks(&key, 11, want);
        two_chunks(&key, 12, want);
        two_chunks(&key, 13, want);
    }

    #[kani::proof]
    #[kani::unwind(36)]
    #[kani::solver(cvc5)]
    #[kani::stub(std::rt::thread_cleanup, noop)]
    fn c03_split_len14() {
        let key: [u8; 14] = kani::any();
        let want = spec_murmur3_token(&key);
        two_chunks(&key, 0, want);
        two_chunks(&key, 1, want);
        two_chunks(&key, 2, want);
        two_chunks(&key, 3, want);
        two_chunks(&key, 4, want);
        two_chunks(&key, 5, want);
        two_chunks(&key, 6, want);
        two_chunks(&key, 7, want);
        two_chunks(&key, 8, want);
        two_chunks(&key, 9, want);
        two_chunks(&key, 10, want);
        two_chunks(&key, 11, want);
        two_chunks(&key, 12, want);
        two_chunks(&key, 13, want);
        two_chunks(&key, 14, want);
    }

    #[kani::proof]
    #[kani::unwind(36)]
    #[kani::solver(cvc5)]
    #[kani::stub(std::rt::thread_cleanup, noop)]
    fn c03_split_len15() {
        let key: [u8; 15] = kani::any();
        let want = spec_murmur3_token(&key);
        two_chunks(&key, 0, want);
        two_chunks(&key, 1, want);
        two_chunks(&key, 2, want);
        two_chunks(&key, 3, want);
        two_chunks(&key, 4, want);
        two_chunks(&key, 5, want);
        two_chunks(&key, 6, want);
        two_chunks(&key, 7, want);
        two_chunks(&key, 8, want);
        two_chunks(&key, 9, want);
        two_chunks(&key, 10, want);
        two_chunks(&key, 11, want);
        two_chunks(&key, 12, want);
        two_chunks(&key, 13, want);
        two_chunks(&key, 14, want);
        two_chunks(&key, 15, want);
    }

    #[kani::proof]
    #[kani::unwind(36)]
    #[kani::solver(cvc5)]
    #[kani::stub(std::rt::thread_cleanup, noop)]
    fn c03_split_len16() {
        let key: [u8; 16] = kani::any();
        let want = spec_murmur3_token(&key);
        two_chunks(&key, 0, want);
        two_chunks(&key, 1, want);
        two_chunks(&key, 2, want);
        two_chunks(&key, 3, want);
        two_chunks(&key, 4, want);
        two_chunks(&key, 5, want);
        two_chunks(&key, 6, want);
        two_chunks(&key, 7, want);
        two_chunks(&key, 8, want);
        two_chunks(&key, 9, want);
        two_chunks(&key, 10, want);
        two_chunks(&key, 11, want);
        two_chunks(&key, 12, want);
        two_chunks(&key, 13, want);
        two_chunks(&key, 14, want);
        two_chunks(&key, 15, want);
        two_chunks(&key, 16, want);
    }

    #[kani::proof]
    #[kani::unwind(36)]
    #[kani::solver(cvc5)]
    #[kani::stub(std::rt::thread_cleanup, noop)]
    fn c03_split_len17() {
        let key: [u8; 17] = kani::any();
        let want = spec_murmur3_token(&key);
        two_chunks(&key, 0, want);
        two_chunks(&key, 1, want);
        two_chunks(&key, 2, want);
        two_chunks(&key, 3, want);
        two_chunks(&key, 4, want);
        two_chunks(&key, 5, want);
        two_chunks(&key, 6, want);
        two_chunks(&key, 7, want);
        two_chunks(&key, 8, want);
        two_chunks(&key, 9, want);
        two_chunks(&key, 10, want);
        two_chunks(&key, 11, want);
        two_chunks(&key, 12, want);
        two_chunks(&key, 13, want);
        two_chunks(&key, 14, want);
        two_chunks(&key, 15, want);
        two_chunks(&key, 16, want);
        two_chunks(&key, 17, want);
    }

    #[kani::proof]
    #[kani::unwind(36)]
    #[kani::solver(cvc5)]
    #[kani::stub(std::rt::thread_cleanup, noop)]
    fn c03_split_len31() {
        let key: [u8; 31] = kani::any();
        let want = spec_murmur3_token(&key);
        two_chunks(&key, 0, want);
        two_chunks(&key, 1, want);
        two_chunks(&key, 2, want);
        two_chunks(&key, 3, want);
        two_chunks(&key, 4, want);
        two_chunks(&key, 5, want);
        two_chunks(&key, 6, want);
        two_chunks(&key, 7, want);
        two_chunks(&key, 8, want);
        two_chunks(&key, 9, want);
        two_chunks(&key, 10, want);
        two_chunks(&key, 11, want);
        two_chunks(&key, 12, want);
        two_chunks(&key, 13, want);
        two_chunks(&key, 14, want);
        two_chunks(&key, 15, want);
        two_chunks(&key, 16, want);
        two_chunks(&key, 17, want);
        two_chunks(&key, 18, want);
        two_chunks(&key, 19, want);
        two_chunks(&key, 20, want);
        two_chunks(&key, 21, want);
        two_chunks(&key, 22, want);
        two_chunks(&key, 23, want);
        two_chunks(&key, 24, want);
        two_chunks(&key, 25, want);
        two_chunks(&key, 26, want);
        two_chunks(&key, 27, want);
        two_chunks(&key, 28, want);
        two_chunks(&key, 29, want);
        two_chunks(&key, 30, want);
        two_chunks(&key, 31, want);
    }

    #[kani::proof]
    #[kani::unwind(36)]
    #[kani::solver(cvc5)]
    #[kani::stub(std::rt::thread_cleanup, noop)]
    fn c03_split_len32() {
        let key: [u8; 32] = kani::any();
        let want = spec_murmur3_token(&key);
        two_chunks(&key, 0, want);
        two_chunks(&key, 1, want);
        two_chunks(&key, 2, want);
        two_chunks(&key, 3, want);
        two_chunks(&key, 4, want);
        two_chunks(&key, 5, want);
        two_chunks(&key, 6, want);
        two_chunks(&key, 7, want);
        two_chunks(&key, 8, want);
        two_chunks(&key, 9, want);
        two_chunks(&key, 10, want);
        two_chunks(&key, 11, want);
        two_chunks(&key, 12, want);
        two_chunks(&key, 13, want);
        two_chunks(&key, 14, want);
        two_chunks(&key, 15, want);
        two_chunks(&key, 16, want);
        two_chunks(&key, 17, want);
        two_chunks(&key, 18, want);
        two_chunks(&key, 19, want);
        two_chunks(&key, 20, want);
        two_chunks(&key, 21, want);
        two_chunks(&key, 22, want);
        two_chunks(&key, 23, want);
        two_chunks(&key, 24, want);
        two_chunks(&key, 25, want);
        two_chunks(&key, 26, want);
        two_chunks(&key, 27, want);
        two_chunks(&key, 28, want);
        two_chunks(&key, 29, want);
        two_chunks(&key, 30, want);
        two_chunks(&key, 31, want);
        two_chunks(&key, 32, want);
    }

    #[kani::proof]
    #[kani::unwind(36)]
    #[kani::solver(cvc5)]
    #[kani::stub(std::rt::thread_cleanup, noop)]
    fn c03_split_len33() {
        let key: [u8; 33] = kani::any();
        let want = spec_murmur3_token(&key);
        two_chunks(&key, 0, want);
        two_chunks(&key, 1, want);
        two_chunks(&key, 2, want);
        two_chunks(&key, 3, want);
        two_chunks(&key, 4, want);
        two_chunks(&key, 5, want);
        two_chunks(&key, 6, want);
        two_chunks(&key, 7, want);
        two_chunks(&key, 8, want);
        two_chunks(&key, 9, want);
        two_chunks(&key, 10, want);
        two_chunks(&key, 11, want);
        two_chunks(&key, 12, want);
        two_chunks(&key, 13, want);
        two_chunks(&key, 14, want);
        two_chunks(&key, 15, want);
        two_chunks(&key, 16, want);
        two_chunks(&key, 17, want);
        two_chunks(&key, 18, want);
        two_chunks(&key, 19, want);
        two_chunks(&key, 20, want);
        two_chunks(&key, 21, want);
        two_chunks(&key, 22, want);
        two_chunks(&key, 23, want);
        two_chunks(&key, 24, want);
        two_chunks(&key, 25, want);
        two_chunks(&key, 26, want);
        two_chunks(&key, 27, want);
        two_chunks(&key, 28, want);
        two_chunks(&key, 29, want);
        two_chunks(&key, 30, want);
        two_chunks(&key, 31, want);
        two_chunks(&key, 32, want);
        two_chunks(&key, 33, want);
    }

    /// C03.murmur3.spec(L): for every byte string of length L (all values, incl. bytes >= 0x80) the real
    /// streaming hasher returns Cassandra's token.
    macro_rules! spec_case {
        ($name:ident, $n:expr) => {
            #[kani::proof]
            #[kani::unwind(20)]
            #[kani::solver(cvc5)]
            #[kani::stub(std::rt::thread_cleanup, noop)]
            fn $name() {
                let key: [u8; $n] = kani::any();
                let t = Murmur3Partitioner.hash_one(&key);
                assert!(t.value() == spec_murmur3_token(&key), "token == Cassandra Murmur3 token");
            }
        };
    }
    spec_case!(c03_spec_len00, 0);
    spec_case!(c03_spec_len01, 1);
    spec_case!(c03_spec_len02, 2);
    spec_case!(c03_spec_len03, 3);
    spec_case!(c03_spec_len04, 4);
    spec_case!(c03_spec_len05, 5);
    spec_case!(c03_spec_len06, 6);
    spec_case!(c03_spec_len07, 7);
    spec_case!(c03_spec_len08, 8);
    spec_case!(c03_spec_len09, 9);
    spec_case!(c03_spec_len10, 10);
    spec_case!(c03_spec_len11, 11);
    spec_case!(c03_spec_len12, 12);
    spec_case!(c03_spec_len13, 13);
    spec_case!(c03_spec_len14, 14);
    spec_case!(c03_spec_len15, 15);
    spec_case!(c03_spec_len16, 16);
    spec_case!(c03_spec_len17, 17);
    spec_case!(c03_spec_len31, 31);
    spec_case!(c03_spec_len32, 32);
    spec_case!(c03_spec_len33, 33);
    // thorough tier
    spec_case!(c03_spec_len47, 47);
    spec_case!(c03_spec_len48, 48);
    spec_case!(c03_spec_len49, 49);
    spec_case!(c03_spec_len64, 64);
    spec_case!(c03_spec_len65, 65);

    /// C03.token_new — Long.MIN_VALUE is mapped to Long.MAX_VALUE, everything else unchanged
    #[kani::proof]
    fn c03_token_new() {
        let v: i64 = kani::any();
        let t = Token::new(v);
        assert!(t.value() == if v == i64::MIN { i64::MAX } else { v });
    }

    /// C03.cdc — CDC partitioner: token = first 8 bytes big-endian (normalised) once 8 bytes were seen,
    /// independent of chunking; fewer than 8 bytes => the invalid (minimum) token.
    #[kani::proof]
    #[kani::unwind(12)]
    #[kani::stub(std::rt::thread_cleanup, noop)]
    fn c03_cdc_token() {
        let key: [u8; 10] = kani::any();
        let len: usize = kani::any();
        kani::assume(len <= 10);
        let c1: usize = kani::any();
        let c2: usize = kani::any();
        kani::assume(c1 <= c2 && c2 <= len);
        let mut h = CDCPartitioner.build_hasher();
        h.write(&key[..c1]);
        h.write(&key[c1..c2]);
        h.write(&key[c2..len]);
        let t = h.finish();
        if len >= 8 {
            let v = i64::from_be_bytes([key[0], key[1], key[2], key[3], key[4], key[5], key[6], key[7]]);
            assert!(t.value() == if v == i64::MIN { i64::MAX } else { v });
        } else {
            assert!(t.value() == i64::MIN, "too short: ScyllaDB's minimum token");
        }
        let one = CDCPartitioner.hash_one(&key[..len]);
        assert!(one == t, "chunking does not matter");
    }

    /// C03.partitioner_name — the CDC partitioner is selected exactly for names ending in CDCPartitioner
    #[kani::proof]
    #[kani::unwind(30)]
    #[kani::stub(std::rt::thread_cleanup, noop)]
    fn c03_partitioner_name() {
        assert!(PartitionerName::from_str("org.apache.cassandra.dht.Murmur3Partitioner") == Some(PartitionerName::Murmur3));
        assert!(PartitionerName::from_str("com.scylladb.dht.CDCPartitioner") == Some(PartitionerName::CDC));
        assert!(PartitionerName::from_str("org.apache.cassandra.dht.RandomPartitioner") == None);
    }

    /// canary: the reference is not the unsigned-byte MurmurHash3 (0x80 in the tail must matter)
    #[kani::proof]
    #[kani::unwind(20)]
    #[kani::should_panic]
    #[kani::stub(std::rt::thread_cleanup, noop)]
    fn c03_canary_token_is_zero() {
        let key: [u8; 3] = kani::any();
        assert!(Murmur3Partitioner.hash_one(&key).value() == 0);
    }
}
