// C18 — MonotonicTimestampGenerator: thread-local (rely/guarantee) obligations on the real code.
#![allow(dead_code, unused_imports, static_mut_refs)]
mod c18 {
    use super::super::*;
    use std::sync::atomic::{AtomicI64, Ordering};
    use std::time::{Duration as StdDuration, SystemTime, UNIX_EPOCH};

    fn noop() {}

    // ------------------------------------------------------------ environment model (all ASSUMED, listed in evidence)
    /// wall clock: ANY reading within +/- 2^63 microseconds of the epoch (stall, repeat, step back, pre-epoch)
    fn any_system_time() -> SystemTime {
        let secs: u64 = kani::any();
        kani::assume(secs < 9_000_000_000_000); // 9e12 s * 1e6 < 2^63 microseconds
        let nanos: u32 = kani::any();
        kani::assume(nanos < 1_000_000_000);
        let d = StdDuration::new(secs, nanos);
        if kani::any() { UNIX_EPOCH + d } else { UNIX_EPOCH - d }
    }
    fn zero_instant() -> std::time::Instant {
        // monotonic clock reading used only for rate-limiting the warning; any valid value will do
        unsafe { std::mem::zeroed() }
    }

    // shared cell `last` as seen by this thread, with interference from other threads
    static mut LAST: i64 = 0;
    static mut ENV_BUDGET: u8 = 0;
    static mut MY_CAS_OK: u8 = 0;
    static mut MY_OLD: i64 = 0;
    static mut MY_NEW: i64 = 0;

    /// RELY: between any two of this thread's atomic accesses other threads may change `last`, but only by
    /// their own successful compare_exchange(old, new) with new > old, i.e. `last` only grows.
    fn env_step() {
        unsafe {
            if ENV_BUDGET > 0 && kani::any() {
                ENV_BUDGET -= 1;
                let v: i64 = kani::any();
                kani::assume(v > LAST && v < i64::MAX - 16); // precondition: timestamps stay clear of i64::MAX (year 294247)
                LAST = v;
            }
        }
    }
    fn stub_load(_a: &AtomicI64, _o: Ordering) -> i64 {
        env_step();
        unsafe { LAST }
    }
    fn stub_cas(_a: &AtomicI64, current: i64, new: i64, _s: Ordering, _f: Ordering) -> Result<i64, i64> {
        env_step();
        unsafe {
            if LAST == current {
                MY_CAS_OK += 1;
                MY_OLD = current;
                MY_NEW = new;
                LAST = new;
                Ok(current)
            } else {
                Err(LAST)
            }
        }
    }

    fn any_generator() -> MonotonicTimestampGenerator {
        let g = MonotonicTimestampGenerator {
            last: AtomicI64::new(0),
            last_warning: Mutex::new(Instant::now()),
            config: None,
        };
        if kani::any() {
            let thr: u32 = kani::any();
            let int: u32 = kani::any();
            g.with_warning_times(Duration::from_micros(thr as u64), Duration::from_micros(int as u64))
        } else {
            g
        }
    }

    /// C18.compute_next — for every `last` < i64::MAX and every clock reading: result > last.
    #[kani::proof]
    #[kani::stub(std::rt::thread_cleanup, noop)]
    #[kani::stub(std::time::SystemTime::now, any_system_time)]
    #[kani::stub(std::time::Instant::now, zero_instant)]
    fn c18_compute_next() {
        let g = any_generator();
        let last: i64 = kani::any();
        kani::assume(last < i64::MAX && last >= 0);
        let r = g.compute_next(last);
        assert!(r > last, "compute_next returns a value strictly above `last`");
        kani::cover!(r == last + 1, "clock not ahead: artificial increment");
        kani::cover!(r > last + 1, "clock ahead: clock value used");
    }

    /// C18.next_timestamp.guarantee — under the rely, one call performs exactly one successful CAS(old,new)
    /// with new > old, writes nothing else, and returns that `new`.
    #[kani::proof]
    #[kani::unwind(4)]
    #[kani::stub(std::rt::thread_cleanup, noop)]
    #[kani::stub(std::time::SystemTime::now, any_system_time)]
    #[kani::stub(std::time::Instant::now, zero_instant)]
    #[kani::stub(std::sync::atomic::Atomic::<i64>::load, stub_load)]
    #[kani::stub(std::sync::atomic::Atomic::<i64>::compare_exchange, stub_cas)]
    fn c18_next_timestamp_guarantee() {
        let g = any_generator();
        unsafe {
            LAST = kani::any();
            kani::assume(LAST >= 0 && LAST < i64::MAX - 8);
            ENV_BUDGET = 2; // other threads get in between at most twice, then this thread's CAS goes through
            MY_CAS_OK = 0;
        }
        let start = unsafe { LAST };
        let r = g.next_timestamp();
        unsafe {
            assert!(MY_CAS_OK == 1, "exactly one successful compare_exchange");
            assert!(MY_NEW > MY_OLD, "the CAS strictly increases `last`");
            assert!(r == MY_NEW, "the returned timestamp is the value installed by this thread's CAS");
            assert!(MY_OLD >= start, "`last` never went backwards while we were running");
            assert!(LAST >= r);
        }
    }

    /// C18.next_timestamp.thread_order — two consecutive calls of one thread, arbitrary interference:
    /// second > first.
    #[kani::proof]
    #[kani::unwind(4)]
    #[kani::stub(std::rt::thread_cleanup, noop)]
    #[kani::stub(std::time::SystemTime::now, any_system_time)]
    #[kani::stub(std::time::Instant::now, zero_instant)]
    #[kani::stub(std::sync::atomic::Atomic::<i64>::load, stub_load)]
    #[kani::stub(std::sync::atomic::Atomic::<i64>::compare_exchange, stub_cas)]
    fn c18_next_timestamp_two_calls() {
        let g = any_generator();
        unsafe {
            LAST = kani::any();
            kani::assume(LAST >= 0 && LAST < i64::MAX - 8);
            ENV_BUDGET = 2;
            MY_CAS_OK = 0;
        }
        let a = g.next_timestamp();
        let b = g.next_timestamp();
        assert!(b > a, "strictly increasing along one thread's calls");
    }

    /// canary: "the generator always returns last + 1" is false (the clock may be ahead) and must be refuted
    #[kani::proof]
    #[kani::unwind(4)]
    #[kani::should_panic]
    #[kani::stub(std::rt::thread_cleanup, noop)]
    #[kani::stub(std::time::SystemTime::now, any_system_time)]
    #[kani::stub(std::time::Instant::now, zero_instant)]
    #[kani::stub(std::sync::atomic::Atomic::<i64>::load, stub_load)]
    #[kani::stub(std::sync::atomic::Atomic::<i64>::compare_exchange, stub_cas)]
    fn c18_canary_always_last_plus_one() {
        let g = any_generator();
        unsafe {
            LAST = kani::any();
            kani::assume(LAST >= 0 && LAST < i64::MAX - 8);
            ENV_BUDGET = 0;
            MY_CAS_OK = 0;
        }
        let start = unsafe { LAST };
        let r = g.next_timestamp();
        assert!(r == start + 1);
    }
}
