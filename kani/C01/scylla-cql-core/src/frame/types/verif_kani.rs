// C01 — vint / zig-zag primitives used by duration and vector encodings (loop-free: complete over all u64 / i64).
#![allow(dead_code, unused_imports)]
mod c01_vint {
    use super::super::*;

    fn noop() {}

    /// spec (native_protocol_v5 [unsigned vint], used by CQL duration): the number of leading 1-bits of the first
    /// byte is the number of extra bytes; the remaining bits, big-endian, are the value; shortest form is used.
    fn spec_len(v: u64) -> usize {
        let bits = 64 - v.leading_zeros() as usize; // significant bits
        if bits <= 7 { 1 } else if bits <= 14 { 2 } else if bits <= 21 { 3 } else if bits <= 28 { 4 } else if bits <= 35 { 5 }
        else if bits <= 42 { 6 } else if bits <= 49 { 7 } else if bits <= 56 { 8 } else { 9 }
    }

    #[kani::proof]
    #[kani::unwind(11)]
    #[kani::stub(std::rt::thread_cleanup, noop)]
    fn c01_unsigned_vint_roundtrip() {
        let v: u64 = kani::any();
        let mut buf: Vec<u8> = Vec::new();
        unsigned_vint_encode(v, &mut buf);
        assert!(buf.len() == spec_len(v), "shortest encoding");
        let extra = buf.len() - 1;
        assert!(buf[0].leading_ones() as usize == extra, "first byte announces the number of extra bytes");
        let mut s = &buf[..];
        let back = unsigned_vint_decode(&mut s).unwrap();
        assert!(back == v, "decode(encode(v)) == v");
        assert!(s.is_empty(), "decode consumes exactly the encoded bytes");
    }

    #[kani::proof]
    #[kani::unwind(11)]
    #[kani::stub(std::rt::thread_cleanup, noop)]
    fn c01_vint_zigzag_roundtrip() {
        let v: i64 = kani::any();
        let z = zig_zag_encode(v);
        // zig-zag: 0, -1, 1, -2, 2 ... -> 0, 1, 2, 3, 4 ...
        assert!(z == if v >= 0 { (v as u64) << 1 } else { (((-(v + 1)) as u64) << 1) | 1 });
        assert!(zig_zag_decode(z) == v);
        let mut buf: Vec<u8> = Vec::new();
        vint_encode(v, &mut buf);
        let mut s = &buf[..];
        assert!(vint_decode(&mut s).unwrap() == v && s.is_empty());
    }

    /// decoding ANY bytes never panics and never reads past the end
    #[kani::proof]
    #[kani::unwind(11)]
    #[kani::stub(std::rt::thread_cleanup, noop)]
    fn c01_unsigned_vint_decode_any_bytes() {
        let b: [u8; 9] = kani::any();
        let n: usize = kani::any();
        kani::assume(n <= 9);
        let mut s = &b[..n];
        let r = unsigned_vint_decode(&mut s);
        assert!(s.len() <= n);
        if n >= 1 {
            let extra = b[0].leading_ones() as usize;
            assert!(r.is_ok() == (n >= 1 + extra), "Ok iff all announced bytes are present");
        } else {
            assert!(r.is_err());
        }
    }
}
