// C01 / C17 — fixed-width native carriers: real serialize/deserialize vs an independent spec encoder, and the
// carrier x column-type acceptance matrix (documentation table docs/source/data-types/data-types.md).
#![allow(dead_code, unused_imports)]
mod c01 {
    use crate::deserialize::value::DeserializeValue;
    use crate::deserialize::FrameSlice;
    use crate::frame::response::result::{ColumnType, NativeType};
    use crate::serialize::value::SerializeValue;
    use crate::serialize::writers::CellWriter;
    use crate::value::{Counter, CqlDate, CqlTime, CqlTimestamp, MaybeUnset, Unset};

    fn noop() {}
    fn empty_string(_a: std::fmt::Arguments<'_>) -> String { String::new() }

    const NATIVES: [NativeType; 20] = [
        NativeType::Ascii, NativeType::Boolean, NativeType::Blob, NativeType::Counter, NativeType::Date,
        NativeType::Decimal, NativeType::Double, NativeType::Duration, NativeType::Float, NativeType::Int,
        NativeType::BigInt, NativeType::Text, NativeType::Timestamp, NativeType::Inet, NativeType::SmallInt,
        NativeType::TinyInt, NativeType::Time, NativeType::Timeuuid, NativeType::Uuid, NativeType::Varint,
    ];
    /// any native column type (symbolic choice among all 20 variants)
    fn any_native() -> NativeType {
        let i: usize = kani::any();
        kani::assume(i < NATIVES.len());
        NATIVES[i].clone()
    }

    // ---- independent spec of the wire encodings (native_protocol_v4.spec §6): big-endian two's complement
    fn be(x: u64, n: usize, out: &mut [u8]) {
        let mut i = 0;
        while i < n {
            out[i] = (x >> (8 * (n - 1 - i))) as u8;
            i += 1;
        }
    }
    /// expected cell for a value of `n` bytes whose big-endian image is `x`: [int n][n bytes]
    fn spec_cell(x: u64, n: usize) -> ([u8; 20], usize) {
        let mut c = [0u8; 20];
        be(n as u64, 4, &mut c[0..4]);
        be(x, n, &mut c[4..4 + n]);
        (c, 4 + n)
    }
    /// ... whose wire image is given byte by byte (uuid: 16 raw bytes)
    fn spec_cell_bytes(img: [u8; 16]) -> ([u8; 20], usize) {
        let mut c = [0u8; 20];
        be(16, 4, &mut c[0..4]);
        let mut i = 0;
        while i < 16 {
            c[4 + i] = img[i];
            i += 1;
        }
        (c, 20)
    }

    /// Generic obligation for one fixed-width carrier:
    ///  * serialize(typ) is Ok exactly for the documented column type(s) and then writes be32(n) ++ big-endian value;
    ///  * on a mismatched type it fails and NOT ONE byte is written (the request buffer is untouched);
    ///  * type_check accepts exactly the documented type(s); deserialize(serialize(v)) == v bit for bit;
    ///  * a cell of the wrong width is rejected by deserialize (never reinterpreted).
    fn check_fixed<T>(v: T, image: u64, width: usize, accepted: &[NativeType], same: fn(&T, &T) -> bool)
    where
        T: SerializeValue + for<'f, 'm> DeserializeValue<'f, 'm>,
    {
        check_cell::<T>(v, spec_cell(image, width), accepted, accepted, same)
    }

    /// `ser_ok`: column types the carrier may be bound to; `de_ok`: column types it may be read from (documentation table)
    fn check_cell<T>(v: T, expect: ([u8; 20], usize), ser_ok: &[NativeType], de_ok: &[NativeType], same: fn(&T, &T) -> bool)
    where
        T: SerializeValue + for<'f, 'm> DeserializeValue<'f, 'm>,
    {
        let nt = any_native();
        let documented = ser_ok.contains(&nt);
        let readable = de_ok.contains(&nt);
        // ColumnType is a recursive enum: CBMC unwinds its drop glue to the unwinding bound at every drop. None of the
        // values below owns heap data, so they are deliberately never dropped (ManuallyDrop / forget).
        let typ = std::mem::ManuallyDrop::new(ColumnType::Native(nt));
        let typ: &ColumnType = &typ;
        let prefix: u8 = kani::any();
        let mut buf: Vec<u8> = vec![prefix];
        let r = std::mem::ManuallyDrop::new(v.serialize(typ, CellWriter::new(&mut buf)));
        if documented {
            assert!(r.is_ok(), "documented pair accepted");
            let (cell, n) = expect;
            assert!(buf.len() == 1 + n && buf[0] == prefix, "earlier bytes untouched, exactly one cell appended");
            let mut i = 0;
            while i < 20 {
                if i < n {
                    assert!(buf[1 + i] == cell[i], "bytes == CQL v4 encoding");
                }
                i += 1;
            }
            let tc = std::mem::ManuallyDrop::new(<T as DeserializeValue>::type_check(typ));
            assert!(tc.is_ok() == readable);
            let back = std::mem::ManuallyDrop::new(<T as DeserializeValue>::deserialize(typ, Some(FrameSlice::new_borrowed(&buf[5..]))));
            match &*back {
                Ok(b) => assert!(same(b, &v), "decode(encode(v)) == v"),
                Err(_) => assert!(false, "a well-formed cell decodes"),
            }
            // wrong width: one byte short
            let short = std::mem::ManuallyDrop::new(<T as DeserializeValue>::deserialize(typ, Some(FrameSlice::new_borrowed(&buf[5..buf.len() - 1]))));
            assert!(short.is_err(), "a cell of the wrong width is rejected");
            // null cell for a non-Option carrier is an error, not a default value
            let null = std::mem::ManuallyDrop::new(<T as DeserializeValue>::deserialize(typ, None));
            assert!(null.is_err());
        } else {
            assert!(r.is_err(), "undocumented pair rejected");
            assert!(buf.len() == 1 && buf[0] == prefix, "no byte of a mismatched value is written");
            let tc = std::mem::ManuallyDrop::new(<T as DeserializeValue>::type_check(typ));
            assert!(tc.is_ok() == readable, "reading is accepted exactly for the documented column types");
        }
    }

    macro_rules! fixed_case {
        ($name:ident, $t:ty, $mk:expr, $img:expr, $w:expr, [$($acc:ident),*], $same:expr) => {
            #[kani::proof]
            #[kani::unwind(22)]
            #[kani::stub(std::rt::thread_cleanup, noop)]
            #[kani::stub(alloc::fmt::format, empty_string)]
            fn $name() {
                let raw = kani::any();
                let v: $t = ($mk)(raw);
                check_fixed::<$t>(v, ($img)(raw), $w, &[$(NativeType::$acc),*], $same);
            }
        };
    }
    fixed_case!(c01_i8, i8, |r: i8| r, |r: i8| r as u8 as u64, 1, [TinyInt], |a: &i8, b: &i8| a == b);
    fixed_case!(c01_i16, i16, |r: i16| r, |r: i16| r as u16 as u64, 2, [SmallInt], |a: &i16, b: &i16| a == b);
    fixed_case!(c01_i32, i32, |r: i32| r, |r: i32| r as u32 as u64, 4, [Int], |a: &i32, b: &i32| a == b);
    fixed_case!(c01_i64, i64, |r: i64| r, |r: i64| r as u64, 8, [BigInt], |a: &i64, b: &i64| a == b);
    fixed_case!(c01_bool, bool, |r: bool| r, |r: bool| r as u64, 1, [Boolean], |a: &bool, b: &bool| a == b);
    fixed_case!(c01_f32, f32, |r: u32| f32::from_bits(r), |r: u32| r as u64, 4, [Float], |a: &f32, b: &f32| a.to_bits() == b.to_bits());
    fixed_case!(c01_f64, f64, |r: u64| f64::from_bits(r), |r: u64| r, 8, [Double], |a: &f64, b: &f64| a.to_bits() == b.to_bits());
    fixed_case!(c01_counter, Counter, |r: i64| Counter(r), |r: i64| r as u64, 8, [Counter], |a: &Counter, b: &Counter| a.0 == b.0);
    fixed_case!(c01_date, CqlDate, |r: u32| CqlDate(r), |r: u32| r as u64, 4, [Date], |a: &CqlDate, b: &CqlDate| a.0 == b.0);
    // CQL `time` = nanoseconds since midnight, 0..=86399999999999 (values outside are not values of the type: the reader rejects them)
    fixed_case!(c01_time, CqlTime, |r: i64| { kani::assume(r >= 0 && r <= 86_399_999_999_999); CqlTime(r) }, |r: i64| r as u64, 8, [Time], |a: &CqlTime, b: &CqlTime| a.0 == b.0);
    fixed_case!(c01_timestamp, CqlTimestamp, |r: i64| CqlTimestamp(r), |r: i64| r as u64, 8, [Timestamp], |a: &CqlTimestamp, b: &CqlTimestamp| a.0 == b.0);

    /// uuid::Uuid <-> Uuid only; CqlTimeuuid <-> Timeuuid only (documentation table): 16 raw bytes
    #[kani::proof]
    #[kani::unwind(22)]
    #[kani::stub(std::rt::thread_cleanup, noop)]
    #[kani::stub(alloc::fmt::format, empty_string)]
    fn c01_uuid() {
        let raw: [u8; 16] = kani::any();
        let v = uuid::Uuid::from_bytes(raw);
        check_cell::<uuid::Uuid>(v, spec_cell_bytes(raw), &[NativeType::Uuid], &[NativeType::Uuid], |a, b| a.as_bytes() == b.as_bytes());
    }
    #[kani::proof]
    #[kani::unwind(22)]
    #[kani::stub(std::rt::thread_cleanup, noop)]
    #[kani::stub(alloc::fmt::format, empty_string)]
    fn c01_timeuuid() {
        let raw: [u8; 16] = kani::any();
        let v = crate::value::CqlTimeuuid::from_bytes(raw);
        check_cell::<crate::value::CqlTimeuuid>(v, spec_cell_bytes(raw), &[NativeType::Timeuuid], &[NativeType::Timeuuid], |a, b| a.as_bytes() == b.as_bytes());
    }

    /// Option / MaybeUnset / Unset wrappers: None -> null cell be32(-1), Unset -> be32(-2), Some(v) -> v's cell.
    /// (one wrapper per harness: each serialize call drags the whole error machinery into the formula)
    fn ser_into<T: SerializeValue>(v: &T, nt: NativeType) -> (Vec<u8>, bool) {
        use std::mem::ManuallyDrop as MD;
        let typ = MD::new(ColumnType::Native(nt));
        let mut buf: Vec<u8> = Vec::new();
        let ok = MD::new(v.serialize(&typ, CellWriter::new(&mut buf))).is_ok();
        (buf, ok)
    }
    macro_rules! wrapper_case {
        ($name:ident, $body:block) => {
            #[kani::proof]
            #[kani::unwind(12)]
            #[kani::stub(std::rt::thread_cleanup, noop)]
            #[kani::stub(alloc::fmt::format, empty_string)]
            fn $name() $body
        };
    }
    wrapper_case!(c01_option_none, {
        let (buf, ok) = ser_into(&Option::<i32>::None, NativeType::Int);
        assert!(ok && buf.len() == 4 && buf[0] == 0xff && buf[1] == 0xff && buf[2] == 0xff && buf[3] == 0xff, "null = [int] -1");
    });
    wrapper_case!(c01_unset, {
        let (buf, ok) = ser_into(&Unset, NativeType::Int);
        assert!(ok && buf.len() == 4 && buf[0] == 0xff && buf[1] == 0xff && buf[2] == 0xff && buf[3] == 0xfe, "not set = [int] -2");
    });
    wrapper_case!(c01_maybe_unset, {
        let x: i32 = kani::any();
        let v: MaybeUnset<i32> = if kani::any() { MaybeUnset::Set(x) } else { MaybeUnset::Unset };
        let (buf, ok) = ser_into(&v, NativeType::Int);
        assert!(ok);
        match v {
            MaybeUnset::Unset => assert!(buf.len() == 4 && buf[3] == 0xfe && buf[0] == 0xff),
            MaybeUnset::Set(_) => {
                let (cell, n) = spec_cell(x as u32 as u64, 4);
                assert!(buf.len() == n && buf[..] == cell[..n]);
            }
        }
    });
    // (Some(v) through Option<T>::serialize and a mismatched Some(v) were tried as well: Option's impl rewrites the inner
    //  error (`map_err(fix_rust_name_in_err)`), which drags ColumnType clones/drops into every path: > 15 GB, no answer.
    //  Option<T> delegating to T is covered by the Verus trait-level contract of C17 instead.)

    /// canary
    #[kani::proof]
    #[kani::unwind(12)]
    #[kani::should_panic]
    #[kani::stub(std::rt::thread_cleanup, noop)]
    #[kani::stub(alloc::fmt::format, empty_string)]
    fn c01_canary_i32_little_endian() {
        let x: i32 = kani::any();
        let mut buf: Vec<u8> = Vec::new();
        let typ = std::mem::ManuallyDrop::new(ColumnType::Native(NativeType::Int));
        let _ = std::mem::ManuallyDrop::new(x.serialize(&typ, CellWriter::new(&mut buf)));
        assert!(buf[4] == x as u8, "little-endian would put the low byte first");
    }
}
