// C01 — variable-length native carriers (text, blob, inet): real serialize/deserialize vs the CQL v4 encoding
// ([int n] followed by n bytes; text = UTF-8 bytes, blob = the bytes, inet = 4 or 16 address bytes), and round trip.
#![allow(dead_code, unused_imports)]
mod c01v {
    use crate::deserialize::value::DeserializeValue;
    use crate::deserialize::FrameSlice;
    use crate::frame::response::result::{ColumnType, NativeType};
    use crate::serialize::value::SerializeValue;
    use crate::serialize::writers::CellWriter;
    use std::mem::ManuallyDrop as MD;
    use std::net::{IpAddr, Ipv4Addr, Ipv6Addr};

    fn noop() {}
    fn empty_string(_a: std::fmt::Arguments<'_>) -> String { String::new() }

    /// serialize `v` for column type `nt` after a one-byte prefix; returns the buffer
    fn cell<T: SerializeValue + ?Sized>(v: &T, nt: NativeType, prefix: u8) -> MD<Vec<u8>> {
        let typ = MD::new(ColumnType::Native(nt));
        let mut buf: Vec<u8> = vec![prefix];
        let r = MD::new(v.serialize(&typ, CellWriter::new(&mut buf)));
        assert!(r.is_ok(), "documented pair serializes");
        MD::new(buf)
    }
    /// buf == [prefix] ++ be32(n) ++ content[..n]
    fn assert_cell<const N: usize>(buf: &[u8], prefix: u8, content: &[u8; N], n: usize) {
        assert!(buf.len() == 1 + 4 + n && buf[0] == prefix, "earlier bytes untouched, one cell appended");
        assert!(buf[1] == 0 && buf[2] == 0 && buf[3] == 0 && buf[4] == n as u8, "[int n], big-endian");
        let mut i = 0;
        while i < N {
            if i < n {
                assert!(buf[5 + i] == content[i], "content bytes verbatim, in order");
            }
            i += 1;
        }
    }

    macro_rules! harness {
        ($name:ident, $unwind:expr, $body:block) => {
            #[kani::proof]
            #[kani::unwind($unwind)]
            #[kani::stub(std::rt::thread_cleanup, noop)]
            #[kani::stub(alloc::fmt::format, empty_string)]
            fn $name() $body
        };
    }

    // text / ascii: every 2-byte ASCII string, and the empty string (= the zero-length cell [int 0], not null).
    // (Lengths are concrete and the input is built without validation: UTF-8 validation of symbolic bytes of symbolic
    //  length cost CBMC 26 GB.)
    harness!(c01_text_str, 6, {
        let bytes: [u8; 2] = kani::any();
        kani::assume(bytes[0] < 0x80 && bytes[1] < 0x80);
        let s = unsafe { std::str::from_utf8_unchecked(&bytes[..]) };
        let prefix: u8 = kani::any();
        let nt = if kani::any() { NativeType::Text } else { NativeType::Ascii };
        let buf = cell::<str>(s, nt, prefix);
        assert_cell(&buf, prefix, &bytes, 2);
    });
    harness!(c01_text_empty, 6, {
        let prefix: u8 = kani::any();
        let buf = cell::<str>("", NativeType::Text, prefix);
        assert_cell(&buf, prefix, &[0u8; 1], 0);
        let typ = MD::new(ColumnType::Native(NativeType::Text));
        let back = MD::new(<&str as DeserializeValue>::deserialize(&typ, Some(FrameSlice::new_borrowed(&buf[5..]))));
        assert!(matches!(&*back, Ok(b) if b.is_empty()), "the zero-length cell decodes to the empty string");
        let null = MD::new(<&str as DeserializeValue>::deserialize(&typ, None));
        assert!(null.is_err(), "null is not the empty string");
    });
    // blob: every byte string of 0..=4 bytes
    harness!(c01_blob_slice, 7, {
        let bytes: [u8; 4] = kani::any();
        let n: usize = kani::any();
        kani::assume(n <= 4);
        let v: &[u8] = &bytes[..n];
        let prefix: u8 = kani::any();
        let buf = cell::<&[u8]>(&v, NativeType::Blob, prefix);
        assert_cell(&buf, prefix, &bytes, n);
        let typ = MD::new(ColumnType::Native(NativeType::Blob));
        let back = MD::new(<&[u8] as DeserializeValue>::deserialize(&typ, Some(FrameSlice::new_borrowed(&buf[5..]))));
        match &*back {
            Ok(b) => assert!(*b == &bytes[..n], "decode(encode(b)) == b"),
            Err(_) => assert!(false, "a well-formed blob cell decodes"),
        }
    });
    // inet: every IPv4 address = [int 4] + 4 octets; every IPv6 address = [int 16] + 16 octets; other lengths refused
    harness!(c01_inet_v4, 8, {
        let o: [u8; 4] = kani::any();
        let prefix: u8 = kani::any();
        let a = IpAddr::V4(Ipv4Addr::new(o[0], o[1], o[2], o[3]));
        let buf = cell::<IpAddr>(&a, NativeType::Inet, prefix);
        assert_cell(&buf, prefix, &o, 4);
        let typ = MD::new(ColumnType::Native(NativeType::Inet));
        let back = MD::new(<IpAddr as DeserializeValue>::deserialize(&typ, Some(FrameSlice::new_borrowed(&buf[5..]))));
        assert!(matches!(&*back, Ok(b) if *b == a), "decode(encode(a)) == a");
        let short = MD::new(<IpAddr as DeserializeValue>::deserialize(&typ, Some(FrameSlice::new_borrowed(&buf[5..8]))));
        assert!(short.is_err(), "a 3-byte inet cell is refused");
    });
    harness!(c01_inet_v6, 20, {
        let o: [u8; 16] = kani::any();
        let prefix: u8 = kani::any();
        let a = IpAddr::V6(Ipv6Addr::from(o));
        let buf = cell::<IpAddr>(&a, NativeType::Inet, prefix);
        assert_cell(&buf, prefix, &o, 16);
        let typ = MD::new(ColumnType::Native(NativeType::Inet));
        let back = MD::new(<IpAddr as DeserializeValue>::deserialize(&typ, Some(FrameSlice::new_borrowed(&buf[5..]))));
        assert!(matches!(&*back, Ok(b) if *b == a), "decode(encode(a)) == a");
    });
    // varint: the caller's two's-complement big-endian bytes, verbatim, behind [int n]
    harness!(c01_varint_borrowed, 7, {
        use crate::value::CqlVarintBorrowed;
        let bytes: [u8; 3] = kani::any();
        let prefix: u8 = kani::any();
        let v = CqlVarintBorrowed::from_signed_bytes_be_slice(&bytes[..]);
        let buf = cell::<CqlVarintBorrowed<'_>>(&v, NativeType::Varint, prefix);
        assert_cell(&buf, prefix, &bytes, 3);
    });
    // decimal: [int 4 + n] ++ <scale: [int]> ++ the unscaled value's bytes
    harness!(c01_decimal_borrowed, 9, {
        use crate::value::CqlDecimalBorrowed;
        let bytes: [u8; 2] = kani::any();
        let scale: i32 = kani::any();
        let prefix: u8 = kani::any();
        let v = CqlDecimalBorrowed::from_signed_be_bytes_slice_and_exponent(&bytes[..], scale);
        let buf = cell::<CqlDecimalBorrowed<'_>>(&v, NativeType::Decimal, prefix);
        let sc = scale.to_be_bytes();
        let want: [u8; 6] = [sc[0], sc[1], sc[2], sc[3], bytes[0], bytes[1]];
        assert_cell(&buf, prefix, &want, 6);
    });
    // duration: [int n] ++ vint(months) ++ vint(days) ++ vint(nanoseconds); the three vints decode back to the three
    // fields and use up the cell exactly (the vint codec itself is proved over all i64 in frame/types).
    // (All three fields symbolic at once cost CBMC 30 GB - symbolic write offsets; one symbolic field per harness,
    //  placed where the offsets before it are concrete.)
    fn duration_case(months: i32, days: i32, nanoseconds: i64) {
        use crate::frame::types::vint_decode;
        use crate::value::CqlDuration;
        let prefix: u8 = kani::any();
        let buf = cell::<CqlDuration>(&CqlDuration { months, days, nanoseconds }, NativeType::Duration, prefix);
        assert!(buf.len() >= 5 + 3 && buf[0] == prefix && buf[1] == 0 && buf[2] == 0 && buf[3] == 0 && buf[4] as usize == buf.len() - 5, "[int n] = length of the three vints");
        let mut s = &buf[5..];
        assert!(vint_decode(&mut s).unwrap() == months as i64);
        assert!(vint_decode(&mut s).unwrap() == days as i64);
        assert!(vint_decode(&mut s).unwrap() == nanoseconds);
        assert!(s.is_empty(), "nothing after the three vints");
    }
    harness!(c01_duration_nanos, 12, { duration_case(-3, 7, kani::any()); });
    harness!(c01_duration_months, 12, { duration_case(kani::any(), 0, 0); });
}
