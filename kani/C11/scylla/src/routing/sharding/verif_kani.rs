
// ---------------------------------------------------------------- C11 harnesses
mod c11 {
    use super::*;

    fn noop() {}

    fn any_sharder() -> Sharder {
        let n: u16 = kani::any();
        kani::assume(n != 0);
        let msb: u8 = kani::any();
        kani::assume(msb < 64);
        Sharder::new(ShardCount::new(n).unwrap(), msb)
    }

    fn any_range() -> ShardAwarePortRange {
        let lo: u16 = kani::any();
        let hi: u16 = kani::any();
        kani::assume(lo >= 1024 && lo <= hi);
        ShardAwarePortRange::new(lo..=hi).unwrap()
    }

    /// C11.shard_of.contract — all tokens, all shard counts 1..=65535, msb_ignore enumerated
    /// concretely 0..=63 (each value of the shift is a separate, fully symbolic (token, n) query;
    /// with a concrete shift both multipliers get identical operands and the query is easy).
    #[kani::proof_for_contract(Sharder::shard_of)]
    #[kani::unwind(65)]
    fn c11_shard_of_contract() {
        let mut msb: u8 = 0;
        while msb < 64 {
            let n: u16 = kani::any();
            kani::assume(n != 0);
            let s = Sharder::new(ShardCount::new(n).unwrap(), msb);
            let t: i64 = kani::any();
            let r = s.shard_of(Token { value: t });
            kani::cover!(msb == 63 && r + 1 == n as u32);
            msb += 1;
        }
    }

    /// C11.shard_of.spec_selfcheck — the spec function itself on ScyllaDB's documented examples
    /// (guards against a vacuous or wrong oracle): shard(t) for n=1 is 0; the biased extremes.
    #[kani::proof]
    fn c11_spec_shard_sanity() {
        let t: i64 = kani::any();
        assert!(spec_shard(t, 1, 0) == 0);
        assert!(spec_shard(i64::MIN, 7, 0) == 0);
        assert!(spec_shard(i64::MAX, 7, 0) == 6);
        assert!(spec_shard(-1, 2, 0) == 0 && spec_shard(0, 2, 0) == 1);
        // msb_ignore = 1 drops the top bit of the biased token: tokens 2^62 apart by 2^63 collide
        assert!(spec_shard(0, 4, 1) == spec_shard(i64::MIN, 4, 1));
        assert!(spec_shard(1i64 << 62, 4, 1) == 2);
    }

    /// C11.shard_of_source_port.contract
    #[kani::proof_for_contract(Sharder::shard_of_source_port)]
    fn c11_shard_of_source_port_contract() {
        let s = any_sharder();
        let p: u16 = kani::any();
        let r = s.shard_of_source_port(p);
        kani::cover!(r != 0);
    }

    /// C11.shard_info_new — Ok <=> shard < nr_shards, fields preserved.
    #[kani::proof]
    fn c11_shard_info_new() {
        let shard: u16 = kani::any();
        let n: u16 = kani::any();
        kani::assume(n != 0);
        let msb: u8 = kani::any();
        match ShardInfo::new(shard, ShardCount::new(n).unwrap(), msb) {
            Ok(i) => {
                assert!(shard < n);
                assert!(i.shard == shard && i.nr_shards.get() == n && i.msb_ignore == msb);
                let sh = i.get_sharder();
                assert!(sh.nr_shards.get() == n && sh.msb_ignore == msb);
            }
            Err(ShardingError::ShardIdOutOfRange { shard: s2, nr_shards: n2 }) => {
                assert!(shard >= n && s2 == shard && n2 == n);
            }
            Err(_) => assert!(false, "unexpected error kind"),
        }
        kani::cover!(shard < n);
        kani::cover!(shard >= n);
    }

    /// C11.lowest_port.contract — Some(p) is the minimum of P, None iff P is empty.
    #[kani::proof_for_contract(Sharder::calculate_lowest_port_for_shard_in_range)]
    fn c11_lowest_port_contract() {
        let s = any_sharder();
        let shard: u16 = kani::any();
        let r = any_range();
        let res = s.calculate_lowest_port_for_shard_in_range(shard, &r);
        kani::cover!(res.is_none());
        kani::cover!(res.is_some());
    }

    /// canary: a deliberately false claim must be refuted (pipeline sanity).
    #[kani::proof]
    #[kani::should_panic]
    fn c11_canary_shard_of_is_zero() {
        let n: u16 = kani::any();
        kani::assume(n != 0);
        let s = Sharder::new(ShardCount::new(n).unwrap(), 12);
        let t: i64 = kani::any();
        assert!(s.shard_of(Token { value: t }) == 0);
    }
}
