
// ---------------------------------------------------------------- C11 harnesses
mod c11 {
    use super::*;

    fn noop() {}

    fn any_sharder() -> Sharder {
        let n: u16 = kani::any();
        kani::assume(n != 0);
        let msb: u8 = kani::any();
        kani::assume(msb < 64);
        Sharder::new(ShardCount::new(n).unwrap(), msb)
    }

    fn any_range() -> ShardAwarePortRange {
        let lo: u16 = kani::any();
        let hi: u16 = kani::any();
        kani::assume(lo >= 1024 && lo <= hi);
        ShardAwarePortRange::new(lo..=hi).unwrap()
    }

    /// C11.shard_of.contract.msbNN — the in-place contract of `Sharder::shard_of` (result == spec_shard and
    /// result < nr_shards) for ALL tokens and ALL shard counts 1..=65535, one harness per value of
    /// msb_ignore in 0..=63 (with a concrete shift both 128-bit products have syntactically equal operands,
    /// which z3 decides in < 1 s; a symbolic shift did not finish in 10 min on any installed solver).
    macro_rules! shard_of_msb {
        ($($name:ident = $m:expr),* $(,)?) => {$(
            #[kani::proof_for_contract(Sharder::shard_of)]
            #[kani::solver(z3)]
            fn $name() {
                let n: u16 = kani::any();
                kani::assume(n != 0);
                let s = Sharder::new(ShardCount::new(n).unwrap(), $m);
                let t: i64 = kani::any();
                let _ = s.shard_of(Token { value: t });
            }
        )*};
    }
    shard_of_msb!(
        c11_shard_of_msb_00 = 0,
        c11_shard_of_msb_01 = 1,
        c11_shard_of_msb_02 = 2,
        c11_shard_of_msb_03 = 3,
        c11_shard_of_msb_04 = 4,
        c11_shard_of_msb_05 = 5,
        c11_shard_of_msb_06 = 6,
        c11_shard_of_msb_07 = 7,
        c11_shard_of_msb_08 = 8,
        c11_shard_of_msb_09 = 9,
        c11_shard_of_msb_10 = 10,
        c11_shard_of_msb_11 = 11,
        c11_shard_of_msb_12 = 12,
        c11_shard_of_msb_13 = 13,
        c11_shard_of_msb_14 = 14,
        c11_shard_of_msb_15 = 15,
        c11_shard_of_msb_16 = 16,
        c11_shard_of_msb_17 = 17,
        c11_shard_of_msb_18 = 18,
        c11_shard_of_msb_19 = 19,
        c11_shard_of_msb_20 = 20,
        c11_shard_of_msb_21 = 21,
        c11_shard_of_msb_22 = 22,
        c11_shard_of_msb_23 = 23,
        c11_shard_of_msb_24 = 24,
        c11_shard_of_msb_25 = 25,
        c11_shard_of_msb_26 = 26,
        c11_shard_of_msb_27 = 27,
        c11_shard_of_msb_28 = 28,
        c11_shard_of_msb_29 = 29,
        c11_shard_of_msb_30 = 30,
        c11_shard_of_msb_31 = 31,
        c11_shard_of_msb_32 = 32,
        c11_shard_of_msb_33 = 33,
        c11_shard_of_msb_34 = 34,
        c11_shard_of_msb_35 = 35,
        c11_shard_of_msb_36 = 36,
        c11_shard_of_msb_37 = 37,
        c11_shard_of_msb_38 = 38,
        c11_shard_of_msb_39 = 39,
        c11_shard_of_msb_40 = 40,
        c11_shard_of_msb_41 = 41,
        c11_shard_of_msb_42 = 42,
        c11_shard_of_msb_43 = 43,
        c11_shard_of_msb_44 = 44,
        c11_shard_of_msb_45 = 45,
        c11_shard_of_msb_46 = 46,
        c11_shard_of_msb_47 = 47,
        c11_shard_of_msb_48 = 48,
        c11_shard_of_msb_49 = 49,
        c11_shard_of_msb_50 = 50,
        c11_shard_of_msb_51 = 51,
        c11_shard_of_msb_52 = 52,
        c11_shard_of_msb_53 = 53,
        c11_shard_of_msb_54 = 54,
        c11_shard_of_msb_55 = 55,
        c11_shard_of_msb_56 = 56,
        c11_shard_of_msb_57 = 57,
        c11_shard_of_msb_58 = 58,
        c11_shard_of_msb_59 = 59,
        c11_shard_of_msb_60 = 60,
        c11_shard_of_msb_61 = 61,
        c11_shard_of_msb_62 = 62,
        c11_shard_of_msb_63 = 63,
    );

    /// C11.shard_of.spec_selfcheck — the spec function itself on ScyllaDB's documented examples
    /// (guards against a vacuous or wrong oracle): shard(t) for n=1 is 0; the biased extremes.
    #[kani::proof]
    fn c11_spec_shard_sanity() {
        let t: i64 = kani::any();
        assert!(spec_shard(t, 1, 0) == 0);
        assert!(spec_shard(i64::MIN, 7, 0) == 0);
        assert!(spec_shard(i64::MAX, 7, 0) == 6);
        assert!(spec_shard(-1, 2, 0) == 0 && spec_shard(0, 2, 0) == 1);
        // msb_ignore = 1 drops the top bit of the biased token: tokens 2^62 apart by 2^63 collide
        assert!(spec_shard(0, 4, 1) == spec_shard(i64::MIN, 4, 1));
        assert!(spec_shard(1i64 << 62, 4, 1) == 2);
    }

    /// C11.shard_info_new — Ok <=> shard < nr_shards, fields preserved.
    #[kani::proof]
    fn c11_shard_info_new() {
        let shard: u16 = kani::any();
        let n: u16 = kani::any();
        kani::assume(n != 0);
        let msb: u8 = kani::any();
        match ShardInfo::new(shard, ShardCount::new(n).unwrap(), msb) {
            Ok(i) => {
                assert!(shard < n);
                assert!(i.shard == shard && i.nr_shards.get() == n && i.msb_ignore == msb);
                let sh = i.get_sharder();
                assert!(sh.nr_shards.get() == n && sh.msb_ignore == msb);
            }
            Err(ShardingError::ShardIdOutOfRange { shard: s2, nr_shards: n2 }) => {
                assert!(shard >= n && s2 == shard && n2 == n);
            }
            Err(_) => assert!(false, "unexpected error kind"),
        }
        kani::cover!(shard < n);
        kani::cover!(shard >= n);
    }

    /// C11.port_range_new — the constructor is what establishes `valid_range`, the precondition of the port contracts:
    /// Ok <=> non-empty and starting at >= 1024; the range is stored unchanged. Every (start, end).
    #[kani::proof]
    fn c11_port_range_new() {
        let (start, end): (u16, u16) = (kani::any(), kani::any());
        match ShardAwarePortRange::new(start..=end) {
            Ok(r) => {
                assert!(start <= end && start >= 1024, "accepted ranges are non-empty and avoid the reserved ports");
                assert!(*r.0.start() == start && *r.0.end() == end, "stored unchanged");
                assert!(valid_range(&r));
            }
            Err(_) => assert!(start > end || start < 1024, "refused only when empty or starting in the reserved ports"),
        }
        assert!(valid_range(&ShardAwarePortRange::EPHEMERAL_PORT_RANGE) && valid_range(&ShardAwarePortRange::default()));
    }

    /// counterexample search for the in-place contract of calculate_lowest_port_for_shard_in_range (proved unbounded by
    /// the Verus unit; CBMC cannot prove it in reasonable time but finds violations of it quickly)
    #[kani::proof_for_contract(Sharder::calculate_lowest_port_for_shard_in_range)]
    fn c11_search_lowest_port() {
        let s = any_sharder();
        let shard: u16 = kani::any();
        let r = any_range();
        let _ = s.calculate_lowest_port_for_shard_in_range(shard, &r);
    }

    #[kani::proof_for_contract(Sharder::shard_of_source_port)]
    fn c11_search_shard_of_source_port() {
        let s = any_sharder();
        let p: u16 = kani::any();
        let _ = s.shard_of_source_port(p);
    }

    /// canary: a deliberately false claim must be refuted (pipeline sanity).
    #[kani::proof]
    #[kani::should_panic]
    fn c11_canary_shard_of_is_zero() {
        let n: u16 = kani::any();
        kani::assume(n != 0);
        let s = Sharder::new(ShardCount::new(n).unwrap(), 12);
        let t: i64 = kani::any();
        assert!(s.shard_of(Token { value: t }) == 0);
    }
}
