// C09 — bounded Kani twin of the Verus contract of QueryParameters::serialize / write_short_length on the compiled
// code (real bytes::BufMut for Vec<u8>): every subset of optional fields, symbolic field values, hand-written
// protocol layout as the oracle.
#![allow(dead_code, unused_imports)]
mod c09 {
    use super::super::*;
    use crate::frame::request::query::{PagingState, QueryParameters};
    use crate::frame::types::{self, Consistency, SerialConsistency};
    use crate::serialize::row::SerializedValues;
    use std::borrow::Cow;

    fn noop() {}
    fn empty_string(_a: std::fmt::Arguments<'_>) -> String { String::new() }

    #[kani::proof]
    #[kani::unwind(40)]
    #[kani::stub(std::rt::thread_cleanup, noop)]
    #[kani::stub(alloc::fmt::format, empty_string)]
    fn c09_twin_query_parameters() {
        let serial: Option<SerialConsistency> = match kani::any::<u8>() % 3 { 0 => None, 1 => Some(SerialConsistency::Serial), _ => Some(SerialConsistency::LocalSerial) };
        let timestamp: Option<i64> = kani::any();
        let page_size: Option<i32> = kani::any();
        let skip_metadata: bool = kani::any();
        let ps_byte: u8 = kani::any();
        let has_ps: bool = kani::any();
        let paging_state = if has_ps { PagingState::new_from_raw_bytes([ps_byte]) } else { PagingState::start() };
        let p = QueryParameters {
            consistency: Consistency::LocalQuorum,
            serial_consistency: serial,
            timestamp,
            page_size,
            paging_state,
            skip_metadata,
            values: Cow::Borrowed(SerializedValues::EMPTY),
        };
        let mut out: Vec<u8> = Vec::new();
        p.serialize(&mut out).unwrap();
        // oracle: native_protocol_v4.spec 4.1.4
        let mut e: Vec<u8> = vec![0x00, 0x06];
        let mut flags = 0u8;
        if skip_metadata { flags |= 0x02; }
        if page_size.is_some() { flags |= 0x04; }
        if has_ps { flags |= 0x08; }
        if serial.is_some() { flags |= 0x10; }
        if timestamp.is_some() { flags |= 0x20; }
        e.push(flags);
        if let Some(n) = page_size { e.extend_from_slice(&n.to_be_bytes()); }
        if has_ps { e.extend_from_slice(&[0, 0, 0, 1, ps_byte]); }
        if let Some(c) = serial { e.extend_from_slice(&[0, if matches!(c, SerialConsistency::Serial) { 8 } else { 9 }]); }
        if let Some(t) = timestamp { e.extend_from_slice(&t.to_be_bytes()); }
        assert!(out == e, "query parameters: flags = presence bits, fields in protocol order");
    }

    /// [short]-length guard: lengths above 65535 are refused and nothing is written
    #[kani::proof]
    #[kani::unwind(4)]
    #[kani::stub(std::rt::thread_cleanup, noop)]
    fn c09_twin_short_length_guard() {
        let v: usize = kani::any();
        let mut out: Vec<u8> = Vec::new();
        let r = types::write_short_length(v, &mut out);
        if v <= 65535 {
            assert!(r.is_ok() && out.len() == 2 && out[0] == (v >> 8) as u8 && out[1] == v as u8);
        } else {
            assert!(r.is_err() && out.is_empty(), "oversize length refused, not truncated");
        }
    }
}
