// C19 — merge_channel hand-off: real Sender/Receiver code driven by a symbolic schedule at poll granularity.
#![allow(dead_code, unused_imports, static_mut_refs)]
mod c19 {
    use super::super::*;
    use std::future::Future;
    use std::pin::Pin;
    use std::task::{Context, Poll, RawWaker, RawWakerVTable, Waker};

    fn noop() {}

    // ---- counting waker (ghost observation of wake-ups)
    static mut WAKES: u32 = 0;
    unsafe fn w_clone(_: *const ()) -> RawWaker { RawWaker::new(std::ptr::null(), &VTABLE) }
    unsafe fn w_wake(_: *const ()) { unsafe { WAKES += 1; } }
    unsafe fn w_drop(_: *const ()) {}
    static VTABLE: RawWakerVTable = RawWakerVTable::new(w_clone, w_wake, w_wake, w_drop);
    fn waker() -> Waker { unsafe { Waker::from_raw(RawWaker::new(std::ptr::null(), &VTABLE)) } }

    /// Steps of the schedule. Updates are bit sets; merging is union, so "every update observed in exactly
    /// one received value" is: received values are pairwise disjoint and their union is what was merged.
    fn run_schedule<const STEPS: usize>() {
        let (tx, mut rx) = merge_channel::<u8>();
        let mut tx = Some(tx);
        let rx_ptr: *mut Receiver<u8> = &mut rx;
        // (concrete future type: no dynamic dispatch)
        let mut fut = None;
        if false {
            fut = Some(Box::pin(unsafe { (*rx_ptr).recv() }));
        }
        let w = waker();
        let mut cx = Context::from_waker(&w);

        // ghost state
        let mut pending: u8 = 0; // bits merged and not yet received (the abstract slot; 0 = empty)
        let mut delivered: u8 = 0; // union of everything received
        let mut next_bit: u8 = 1;
        let mut parked = false; // the current recv future returned Pending on its last poll
        let mut wakes_at_park: u32 = 0;
        let mut finished = false; // recv returned None

        let mut i = 0;
        while i < STEPS {
            let step: u8 = kani::any();
            match step {
                // producer merges one fresh update into the slot
                0 if tx.is_some() && next_bit != 0 && next_bit < 64 => {
                    let b = next_bit;
                    next_bit <<= 1;
                    let r = tx.as_mut().unwrap().modify(|slot| *slot = Some(slot.unwrap_or(0) | b));
                    assert!(r.is_ok(), "receiver alive: modify succeeds");
                    pending |= b;
                    if parked {
                        // no lost wake-up: a parked consumer has been woken once a value is pending
                        assert!(unsafe { WAKES } > wakes_at_park, "parked consumer woken by modify");
                    }
                }
                // producer goes away
                1 if tx.is_some() => {
                    tx = None;
                    if parked {
                        assert!(unsafe { WAKES } > wakes_at_park, "parked consumer woken by sender drop");
                    }
                }
                // consumer starts a receive (if none in progress)
                2 if fut.is_none() && !finished => {
                    fut = Some(Box::pin(unsafe { (*rx_ptr).recv() }));
                    parked = false;
                }
                // consumer polls its receive
                3 if fut.is_some() => {
                    match fut.as_mut().unwrap().as_mut().poll(&mut cx) {
                        Poll::Ready(Some(v)) => {
                            assert!(v == pending, "received exactly the updates merged since the last receive");
                            assert!(v != 0 && v & delivered == 0, "no update delivered twice");
                            delivered |= v;
                            pending = 0;
                            fut = None;
                            parked = false;
                        }
                        Poll::Ready(None) => {
                            assert!(tx.is_none(), "end of stream only after the producer is gone");
                            assert!(pending == 0, "... and only after the last pending value was taken");
                            finished = true;
                            fut = None;
                            parked = false;
                        }
                        Poll::Pending => {
                            assert!(pending == 0, "a pending value makes the poll Ready");
                            assert!(tx.is_some(), "a gone producer makes the poll Ready");
                            parked = true;
                            wakes_at_park = unsafe { WAKES };
                        }
                    }
                }
                // consumer cancels its receive (drops the future) — may restart later
                4 if fut.is_some() => {
                    fut = None;
                    parked = false;
                }
                _ => {}
            }
            i += 1;
        }
        // quiescence: whatever is still pending is obtainable by one more receive (nothing was lost)
        fut = None;
        if !finished {
            let mut f = Box::pin(unsafe { (*rx_ptr).recv() });
            match f.as_mut().poll(&mut cx) {
                Poll::Ready(Some(v)) => assert!(v == pending && v != 0),
                Poll::Ready(None) => assert!(pending == 0 && tx.is_none()),
                Poll::Pending => assert!(pending == 0 && tx.is_some()),
            }
        }
    }

    #[kani::proof]
    #[kani::unwind(5)]
    #[kani::stub(std::rt::thread_cleanup, noop)]
    fn c19_schedule_3() {
        run_schedule::<3>();
    }

    #[kani::proof]
    #[kani::unwind(7)]
    #[kani::stub(std::rt::thread_cleanup, noop)]
    fn c19_schedule_5() {
        run_schedule::<5>();
    }

    /// producer learns that the consumer is gone
    #[kani::proof]
    #[kani::unwind(4)]
    #[kani::stub(std::rt::thread_cleanup, noop)]
    fn c19_modify_after_receiver_drop() {
        let (mut tx, rx) = merge_channel::<u8>();
        let before: bool = kani::any();
        if before {
            assert!(tx.modify(|s| *s = Some(1)).is_ok());
        }
        drop(rx);
        assert!(tx.modify(|s| *s = Some(2)) == Err(SendError), "producer learns the consumer is gone");
    }

    /// canary: claiming that a value can be received twice must be refuted
    #[kani::proof]
    #[kani::unwind(4)]
    #[kani::should_panic]
    #[kani::stub(std::rt::thread_cleanup, noop)]
    fn c19_canary_value_received_twice() {
        let (mut tx, mut rx) = merge_channel::<u8>();
        tx.modify(|s| *s = Some(1)).unwrap();
        let a = rx.try_recv();
        let b = rx.try_recv();
        assert!(a == Some(1) && b == Some(1));
    }
}
