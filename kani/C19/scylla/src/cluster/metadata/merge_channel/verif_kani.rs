// C19 — merge_channel hand-off: real Sender/Receiver code driven by a symbolic schedule at poll granularity.
#![allow(dead_code, unused_imports, static_mut_refs)]
mod c19 {
    use super::super::*;
    use std::future::Future;
    use std::pin::Pin;
    use std::task::{Context, Poll, RawWaker, RawWakerVTable, Waker};

    fn noop() {}
    // std::sync::Mutex::lock is replaced by try_lock + a CHECK (not an assumption) that the lock is free: these
    // harnesses are sequential, so the futex slow path (spin loop, system call, errno/io::Error plumbing with
    // recursive drop glue) is unreachable; removing it from the model is what makes the schedules tractable.
    fn lock_uncontended<T>(m: &std::sync::Mutex<T>) -> std::sync::LockResult<std::sync::MutexGuard<'_, T>> {
        match m.try_lock() {
            Ok(g) => Ok(g),
            Err(std::sync::TryLockError::Poisoned(p)) => Err(p),
            Err(std::sync::TryLockError::WouldBlock) => panic!("mutex contended in a sequential harness"),
        }
    }

    // wake-ups are observed through the Notify contract model's counter; polls use a no-op waker
    use super::notify_model::wakes;
    fn waker() -> Waker { Waker::noop().clone() }

    /// The world: the real channel plus ghost state. Updates are bit sets; merging is union, so "every update
    /// observed in exactly one received value" is: received values are pairwise disjoint and each equals what was
    /// merged since the previous receive.
    /// (The steps are written out textually in the harnesses - no harness loop - so that the unwinding bound only
    /// has to cover the loops of the code under test: recv's retry loop and Notified's state machine.)
    /// (the receive future has a concrete, if unnameable, type `F`: no `dyn`, so no extra vtables for CBMC's
    /// function-pointer resolution)
    fn start_recv(rx: *mut Receiver<u8>) -> impl Future<Output = Option<u8>> {
        unsafe { (*rx).recv() }
    }
    /// (the future lives in ONE pinned stack slot that is reused: heap objects are untyped byte arrays for CBMC and
    /// every write through a pointer with several candidate targets is encoded bytewise for each of them)
    struct World<'s, F> {
        tx: Option<Sender<u8>>,
        rx: *mut Receiver<u8>,
        fut: Pin<&'s mut Option<F>>,
        // ghost state
        pending: u8,   // bits merged and not yet received (the abstract slot; 0 = empty)
        delivered: u8, // union of everything received
        next_bit: u8,
        parked: bool,  // the current recv future returned Pending on its last poll
        wakes_at_park: u32,
        finished: bool, // recv returned None
    }

    impl<F: Future<Output = Option<u8>>> World<'_, F> {
        fn step(&mut self, step: u8, cx: &mut Context<'_>, mk: impl Fn(*mut Receiver<u8>) -> F) {
            match step {
                // producer merges one fresh update into the slot
                0 if self.tx.is_some() && self.next_bit != 0 && self.next_bit < 64 => {
                    let b = self.next_bit;
                    self.next_bit <<= 1;
                    let r = self.tx.as_mut().unwrap().modify(|slot| *slot = Some(slot.unwrap_or(0) | b));
                    assert!(r.is_ok(), "receiver alive: modify succeeds");
                    self.pending |= b;
                    if self.parked {
                        // no lost wake-up: a parked consumer has been woken once a value is pending
                        assert!(wakes() > self.wakes_at_park, "parked consumer woken by modify");
                    }
                }
                // producer goes away
                1 if self.tx.is_some() => {
                    self.tx = None;
                    if self.parked {
                        assert!(wakes() > self.wakes_at_park, "parked consumer woken by sender drop");
                    }
                }
                // consumer starts a receive (if none in progress) and polls it once
                2 if self.fut.is_none() && !self.finished => {
                    self.fut.set(Some(mk(self.rx)));
                    self.parked = false;
                    self.poll(cx);
                }
                // consumer polls its receive again
                3 if self.fut.is_some() => self.poll(cx),
                // consumer cancels its receive (drops the future) - may restart later
                4 if self.fut.is_some() => {
                    self.fut.set(None);
                    self.parked = false;
                }
                _ => {}
            }
        }

        fn poll(&mut self, cx: &mut Context<'_>) {
            match self.fut.as_mut().as_pin_mut().unwrap().poll(cx) {
                Poll::Ready(Some(v)) => {
                    assert!(v == self.pending, "received exactly the updates merged since the last receive");
                    assert!(v != 0 && v & self.delivered == 0, "no update delivered twice");
                    self.delivered |= v;
                    self.pending = 0;
                    self.fut.set(None);
                    self.parked = false;
                }
                Poll::Ready(None) => {
                    assert!(self.tx.is_none(), "end of stream only after the producer is gone");
                    assert!(self.pending == 0, "... and only after the last pending value was taken");
                    self.finished = true;
                    self.fut.set(None);
                    self.parked = false;
                }
                Poll::Pending => {
                    assert!(self.pending == 0, "a pending value makes the poll Ready");
                    assert!(self.tx.is_some(), "a gone producer makes the poll Ready");
                    self.parked = true;
                    self.wakes_at_park = wakes();
                }
            }
        }

        /// quiescence: whatever is still pending is obtainable by one more receive (nothing was lost)
        fn finish(&mut self, cx: &mut Context<'_>, mk: impl Fn(*mut Receiver<u8>) -> F) {
            self.fut.set(None);
            if !self.finished {
                self.fut.set(Some(mk(self.rx)));
                match self.fut.as_mut().as_pin_mut().unwrap().poll(cx) {
                    Poll::Ready(Some(v)) => assert!(v == self.pending && v != 0),
                    Poll::Ready(None) => assert!(self.pending == 0 && self.tx.is_none()),
                    Poll::Pending => assert!(self.pending == 0 && self.tx.is_some()),
                }
            }
        }
    }

    macro_rules! schedule {
        ($($s:expr),*) => {{
            let (tx, mut rx) = merge_channel::<u8>();
            let w = waker();
            let mut cx = Context::from_waker(&w);
            let slot = std::pin::pin!(None);
            let mut world = World { tx: Some(tx), rx: &mut rx, fut: slot, pending: 0, delivered: 0, next_bit: 1,
                                    parked: false, wakes_at_park: 0, finished: false };
            $( world.step($s, &mut cx, start_recv); )*
            world.finish(&mut cx, start_recv);
        }};
    }

    #[kani::proof]
    #[kani::unwind(3)]
    #[kani::stub(std::rt::thread_cleanup, noop)]
    #[kani::stub(std::sync::Mutex::lock, lock_uncontended)]
    fn c19_schedule_3() {
        schedule!(kani::any(), kani::any(), kani::any());
    }

    #[kani::proof]
    #[kani::unwind(3)]
    #[kani::stub(std::rt::thread_cleanup, noop)]
    #[kani::stub(std::sync::Mutex::lock, lock_uncontended)]
    fn c19_schedule_5() {
        schedule!(kani::any(), kani::any(), kani::any(), kani::any(), kani::any());
    }

    #[kani::proof]
    #[kani::unwind(3)]
    #[kani::stub(std::rt::thread_cleanup, noop)]
    #[kani::stub(std::sync::Mutex::lock, lock_uncontended)]
    fn c19_schedule_7() {
        schedule!(kani::any(), kani::any(), kani::any(), kani::any(), kani::any(), kani::any(), kani::any());
    }

    // ---- longer CONCRETE schedules (quick tier): one per clause of the property that needs more than 3 steps
    macro_rules! scenario {
        ($name:ident: $($s:expr),*) => {
            #[kani::proof]
            #[kani::unwind(3)]
            #[kani::stub(std::rt::thread_cleanup, noop)]
            #[kani::stub(std::sync::Mutex::lock, lock_uncontended)]
            fn $name() {
                schedule!($($s),*);
            }
        };
    }
    // consumer parks; producer merges an update and then goes away; the consumer still receives the update, then the end
    scenario!(c19_scenario_park_merge_drop_poll_start: 2, 0, 1, 3, 2);
    // consumer parks; two merges; it receives both at once; the NEXT receive parks (a stale permit is not an end of stream)
    scenario!(c19_scenario_park_merge_merge_poll_start: 2, 0, 0, 3, 2);
    // a cancelled wait loses nothing: park, cancel, merge, restart => the update; restart again => parks
    scenario!(c19_scenario_park_cancel_merge_start_start: 2, 4, 0, 2, 2);
    // woken by a merge but cancelled before polling: the update is still delivered to the next receive, exactly once
    scenario!(c19_scenario_park_merge_cancel_start_start: 2, 0, 4, 2, 2);

    /// producer learns that the consumer is gone
    #[kani::proof]
    #[kani::unwind(3)]
    #[kani::stub(std::rt::thread_cleanup, noop)]
    fn c19_modify_after_receiver_drop() {
        let (mut tx, rx) = merge_channel::<u8>();
        let before: bool = kani::any();
        if before {
            assert!(tx.modify(|s| *s = Some(1)).is_ok());
        }
        drop(rx);
        assert!(tx.modify(|s| *s = Some(2)) == Err(SendError), "producer learns the consumer is gone");
    }

    /// canary: claiming that a value can be received twice must be refuted
    #[kani::proof]
    #[kani::unwind(3)]
    #[kani::should_panic]
    #[kani::stub(std::rt::thread_cleanup, noop)]
    fn c19_canary_value_received_twice() {
        let (mut tx, mut rx) = merge_channel::<u8>();
        tx.modify(|s| *s = Some(1)).unwrap();
        let a = rx.try_recv();
        let b = rx.try_recv();
        assert!(a == Some(1) && b == Some(1));
    }
}
