// C16 — derived UDT / row mappings bind by name: the EXPANSIONS of the derive macros for a fixed family of structs,
// executed on every permutation of the database-side field order. (A proc-macro's token manipulation cannot carry
// contracts; what runs — and what is checked here — is the generated code.)
#![allow(dead_code, unused_imports)]
mod c16 {
    use crate::deserialize::value::DeserializeValue;
    use crate::deserialize::row::{ColumnIterator, DeserializeRow};
    use crate::deserialize::FrameSlice;
    use crate::frame::response::result::{ColumnSpec, ColumnType, NativeType, TableSpec, UserDefinedType};
    use crate::serialize::row::{RowSerializationContext, SerializeRow};
    use crate::serialize::value::SerializeValue;
    use crate::serialize::writers::{CellWriter, RowWriter};
    use crate::{DeserializeRow, DeserializeValue, SerializeRow, SerializeValue};
    use std::borrow::Cow;
    use std::sync::Arc;

    fn noop() {}
    fn empty_string(_a: std::fmt::Arguments<'_>) -> String { String::new() }

    // ---- the family
    #[derive(SerializeValue, DeserializeValue, SerializeRow, DeserializeRow, PartialEq, Debug, Clone)]
    #[scylla(crate = crate)]
    struct ByName {
        a: i32,
        b: i64,
        c: Option<i16>,
    }

    #[derive(SerializeValue, DeserializeValue, PartialEq, Debug, Clone)]
    #[scylla(crate = crate, flavor = "enforce_order")]
    struct Ordered {
        a: i32,
        b: i64,
        c: Option<i16>,
    }

    #[derive(SerializeValue, DeserializeValue, PartialEq, Debug, Clone)]
    #[scylla(crate = crate)]
    struct Renamed {
        #[scylla(rename = "x")]
        a: i32,
        b: i64,
        #[scylla(rename = "a")]
        c: Option<i16>,
    }

    const PERMS: [[usize; 3]; 6] = [[0, 1, 2], [0, 2, 1], [1, 0, 2], [1, 2, 0], [2, 0, 1], [2, 1, 0]];

    fn native(i: usize) -> ColumnType<'static> {
        // type of declared field i: a:int, b:bigint, c:smallint
        ColumnType::Native(match i { 0 => NativeType::Int, 1 => NativeType::BigInt, _ => NativeType::SmallInt })
    }
    fn udt(names: [&'static str; 3], order: [usize; 3]) -> ColumnType<'static> {
        ColumnType::UserDefinedType {
            frozen: false,
            definition: Arc::new(UserDefinedType {
                name: Cow::Borrowed("t"),
                keyspace: Cow::Borrowed("ks"),
                field_types: vec![
                    (Cow::Borrowed(names[order[0]]), native(order[0])),
                    (Cow::Borrowed(names[order[1]]), native(order[1])),
                    (Cow::Borrowed(names[order[2]]), native(order[2])),
                ],
            }),
        }
    }
    fn any_perm() -> [usize; 3] {
        let p: usize = kani::any();
        kani::assume(p < 6);
        PERMS[p]
    }
    /// spec: the cell of declared field i
    fn put_field(out: &mut Vec<u8>, i: usize, a: i32, b: i64, c: Option<i16>) {
        match i {
            0 => { out.extend_from_slice(&4i32.to_be_bytes()); out.extend_from_slice(&a.to_be_bytes()); }
            1 => { out.extend_from_slice(&8i32.to_be_bytes()); out.extend_from_slice(&b.to_be_bytes()); }
            _ => match c {
                Some(v) => { out.extend_from_slice(&2i32.to_be_bytes()); out.extend_from_slice(&v.to_be_bytes()); }
                None => out.extend_from_slice(&(-1i32).to_be_bytes()),
            },
        }
    }
    /// spec: UDT value = [int total] then the fields' cells in DATABASE order
    fn spec_udt(order: [usize; 3], a: i32, b: i64, c: Option<i16>) -> Vec<u8> {
        let mut body = Vec::new();
        put_field(&mut body, order[0], a, b, c);
        put_field(&mut body, order[1], a, b, c);
        put_field(&mut body, order[2], a, b, c);
        let mut out = Vec::new();
        out.extend_from_slice(&(body.len() as i32).to_be_bytes());
        out.extend_from_slice(&body);
        out
    }

    /// C16.udt.by_name — for every order in which the database lists the fields: each value lands in the
    /// database's position, and value -> bytes -> value is the identity.
    #[kani::proof]
    #[kani::unwind(20)]
    #[kani::stub(std::rt::thread_cleanup, noop)]
    #[kani::stub(alloc::fmt::format, empty_string)]
    fn c16_udt_by_name_all_orders() {
        let order = any_perm();
        let v = ByName { a: kani::any(), b: kani::any(), c: kani::any() };
        let typ = udt(["a", "b", "c"], order);
        let mut buf = Vec::new();
        v.serialize(&typ, CellWriter::new(&mut buf)).unwrap();
        assert!(buf == spec_udt(order, v.a, v.b, v.c), "fields emitted in database order");
        <ByName as DeserializeValue>::type_check(&typ).unwrap();
        let back = <ByName as DeserializeValue>::deserialize(&typ, Some(FrameSlice::new_borrowed(&buf[4..]))).unwrap();
        assert!(back == v, "decode(encode(v)) == v");
    }

    /// C16.udt.enforce_order — the ordered flavour accepts precisely the declared order
    #[kani::proof]
    #[kani::unwind(20)]
    #[kani::stub(std::rt::thread_cleanup, noop)]
    #[kani::stub(alloc::fmt::format, empty_string)]
    fn c16_udt_enforce_order() {
        let order = any_perm();
        let v = Ordered { a: kani::any(), b: kani::any(), c: kani::any() };
        let typ = udt(["a", "b", "c"], order);
        let mut buf = Vec::new();
        let r = v.serialize(&typ, CellWriter::new(&mut buf));
        let declared = order == [0, 1, 2];
        assert!(r.is_ok() == declared, "ordered mode accepts precisely the declared order");
        assert!(<Ordered as DeserializeValue>::type_check(&typ).is_ok() == declared);
        if declared {
            assert!(buf == spec_udt(order, v.a, v.b, v.c));
        }
    }

    /// C16.udt.rename — renamed fields bind to the like-named database field (here names are deliberately crossed)
    #[kani::proof]
    #[kani::unwind(20)]
    #[kani::stub(std::rt::thread_cleanup, noop)]
    #[kani::stub(alloc::fmt::format, empty_string)]
    fn c16_udt_rename() {
        let order = any_perm();
        let v = Renamed { a: kani::any(), b: kani::any(), c: kani::any() };
        // database names of declared fields a,b,c are "x","b","a"
        let typ = udt(["x", "b", "a"], order);
        let mut buf = Vec::new();
        v.serialize(&typ, CellWriter::new(&mut buf)).unwrap();
        assert!(buf == spec_udt(order, v.a, v.b, v.c));
        let back = <Renamed as DeserializeValue>::deserialize(&typ, Some(FrameSlice::new_borrowed(&buf[4..]))).unwrap();
        assert!(back == v);
    }

    /// C16.udt.missing_and_extra — default attributes: a database field unknown to the struct is rejected on
    /// serialization; a struct field missing from the database type is rejected.
    #[kani::proof]
    #[kani::unwind(20)]
    #[kani::stub(std::rt::thread_cleanup, noop)]
    #[kani::stub(alloc::fmt::format, empty_string)]
    fn c16_udt_missing_field_rejected() {
        let v = ByName { a: kani::any(), b: kani::any(), c: kani::any() };
        let typ = ColumnType::UserDefinedType {
            frozen: false,
            definition: Arc::new(UserDefinedType {
                name: Cow::Borrowed("t"),
                keyspace: Cow::Borrowed("ks"),
                field_types: vec![(Cow::Borrowed("a"), native(0)), (Cow::Borrowed("zz"), native(1)), (Cow::Borrowed("c"), native(2))],
            }),
        };
        let mut buf = Vec::new();
        assert!(v.serialize(&typ, CellWriter::new(&mut buf)).is_err(), "unknown database field / missing struct field rejected");
        assert!(<ByName as DeserializeValue>::type_check(&typ).is_err());
    }

    /// C16.row.by_name — derived row binding: columns in any order
    #[kani::proof]
    #[kani::unwind(20)]
    #[kani::stub(std::rt::thread_cleanup, noop)]
    #[kani::stub(alloc::fmt::format, empty_string)]
    fn c16_row_by_name_all_orders() {
        let order = any_perm();
        let v = ByName { a: kani::any(), b: kani::any(), c: kani::any() };
        let names = ["a", "b", "c"];
        let ts = TableSpec::borrowed("ks", "t");
        let specs = [
            ColumnSpec::borrowed(names[order[0]], native(order[0]), ts.clone()),
            ColumnSpec::borrowed(names[order[1]], native(order[1]), ts.clone()),
            ColumnSpec::borrowed(names[order[2]], native(order[2]), ts.clone()),
        ];
        let ctx = RowSerializationContext::from_specs(&specs);
        let mut buf = Vec::new();
        let mut w = RowWriter::new(&mut buf);
        SerializeRow::serialize(&v, &ctx, &mut w).unwrap();
        assert!(w.value_count() == 3);
        let mut expect = Vec::new();
        put_field(&mut expect, order[0], v.a, v.b, v.c);
        put_field(&mut expect, order[1], v.a, v.b, v.c);
        put_field(&mut expect, order[2], v.a, v.b, v.c);
        assert!(buf == expect, "each value in the database's column position");
        <ByName as DeserializeRow>::type_check(&specs).unwrap();
        let back = <ByName as DeserializeRow>::deserialize(ColumnIterator::new(&specs, FrameSlice::new_borrowed(&buf))).unwrap();
        assert!(back == v);
    }

    /// canary
    #[kani::proof]
    #[kani::unwind(20)]
    #[kani::should_panic]
    #[kani::stub(std::rt::thread_cleanup, noop)]
    #[kani::stub(alloc::fmt::format, empty_string)]
    fn c16_canary_declared_order_on_the_wire() {
        let v = ByName { a: kani::any(), b: kani::any(), c: kani::any() };
        let typ = udt(["a", "b", "c"], [1, 0, 2]);
        let mut buf = Vec::new();
        v.serialize(&typ, CellWriter::new(&mut buf)).unwrap();
        assert!(buf == spec_udt([0, 1, 2], v.a, v.b, v.c));
    }
}
