// C16 — derived UDT / row mappings bind by name: the EXPANSIONS of the derive macros for a fixed family of structs,
// executed on every permutation of the database-side field order. (A proc-macro's token manipulation cannot carry
// contracts; what runs — and what is checked here — is the generated code.)
#![allow(dead_code, unused_imports)]
mod c16 {
    use crate::deserialize::value::DeserializeValue;
    use crate::deserialize::row::{ColumnIterator, DeserializeRow};
    use crate::deserialize::FrameSlice;
    use crate::frame::response::result::{ColumnSpec, ColumnType, NativeType, TableSpec, UserDefinedType};
    use crate::serialize::row::{RowSerializationContext, SerializeRow};
    use crate::serialize::value::SerializeValue;
    use crate::serialize::writers::{CellWriter, RowWriter};
    use crate::{DeserializeRow, DeserializeValue, SerializeRow, SerializeValue};
    use std::borrow::Cow;
    use std::sync::Arc;

    fn noop() {}
    /// ColumnType::clone is only used to put the offending type into error objects; its recursive expansion is what
    /// CBMC spends its time on. Replaced by a shallow stand-in (affects the CONTENT of error values only).
    fn shallow_type_clone<'f>(_t: &ColumnType<'f>) -> ColumnType<'f>
    where
        'f: 'f, // (makes the lifetime early-bound so that the signature matches the derived impl's)
    {
        ColumnType::Native(NativeType::Blob)
    }
    fn empty_string(_a: std::fmt::Arguments<'_>) -> String { String::new() }

    // ---- the family
    #[derive(SerializeValue, DeserializeValue, SerializeRow, DeserializeRow, PartialEq, Debug, Clone)]
    #[scylla(crate = crate)]
    struct ByName {
        a: i32,
        b: i64,
        c: Option<i16>,
    }

    #[derive(SerializeValue, DeserializeValue, PartialEq, Debug, Clone)]
    #[scylla(crate = crate, flavor = "enforce_order")]
    struct Ordered {
        a: i32,
        b: i64,
        c: Option<i16>,
    }

    #[derive(SerializeValue, DeserializeValue, PartialEq, Debug, Clone)]
    #[scylla(crate = crate)]
    struct Renamed {
        #[scylla(rename = "x")]
        a: i32,
        b: i64,
        #[scylla(rename = "a")]
        c: Option<i16>,
    }

    #[derive(SerializeValue, DeserializeValue, PartialEq, Debug, Clone)]
    #[scylla(crate = crate)]
    struct WithOptional {
        a: i32,
        #[scylla(allow_missing)]
        b: Option<i64>,
        c: Option<i16>,
    }

    const PERMS: [[usize; 3]; 6] = [[0, 1, 2], [0, 2, 1], [1, 0, 2], [1, 2, 0], [2, 0, 1], [2, 1, 0]];

    fn native(i: usize) -> ColumnType<'static> {
        // type of declared field i: a:int, b:bigint, c:smallint
        ColumnType::Native(match i { 0 => NativeType::Int, 1 => NativeType::BigInt, _ => NativeType::SmallInt })
    }
    // ColumnType is a recursive enum whose drop glue CBMC unwinds to the bound at every drop: types, contexts and
    // results are therefore leaked on purpose (ManuallyDrop) — they own nothing that matters to the obligations.
    use std::mem::ManuallyDrop as MD;

    fn udt(names: [&'static str; 3], order: [usize; 3]) -> MD<ColumnType<'static>> {
        MD::new(udt_raw(names, order))
    }
    fn udt_raw(names: [&'static str; 3], order: [usize; 3]) -> ColumnType<'static> {
        ColumnType::UserDefinedType {
            frozen: false,
            definition: Arc::new(UserDefinedType {
                name: Cow::Borrowed("t"),
                keyspace: Cow::Borrowed("ks"),
                field_types: vec![
                    (Cow::Borrowed(names[order[0]]), native(order[0])),
                    (Cow::Borrowed(names[order[1]]), native(order[1])),
                    (Cow::Borrowed(names[order[2]]), native(order[2])),
                ],
            }),
        }
    }
    // Unwinding: the default bound is kept at 5 (the harness loops run <= 4 times; ColumnType's recursive clone/drop glue,
    // reachable on error paths, is cut at depth 5 — real types here have depth <= 2, checked by the unwinding
    // assertions); byte comparisons get their own bound through --unwindset memcmp.0:48 (see props/C16.py).
    // The database-side order is enumerated CONCRETELY (one harness per permutation): with a symbolic order every
    // error path of the generated code (which clones ColumnType values into error objects — a recursive clone CBMC
    // unwinds to the bound) stays reachable and the harnesses take tens of minutes; with a concrete order they take
    // seconds. All 6 permutations are still covered, field values stay fully symbolic.
    macro_rules! per_perm {
        ($body:ident: $($name:ident = $p:expr),* $(,)?) => {$(
            #[kani::proof]
            #[kani::unwind(4)]
            #[kani::stub(std::rt::thread_cleanup, noop)]
            #[kani::stub(alloc::fmt::format, empty_string)]
            #[kani::stub(<crate::frame::response::result::ColumnType as std::clone::Clone>::clone, shallow_type_clone)]
            fn $name() { $body(PERMS[$p]); }
        )*};
    }
    /// spec: the cell of declared field i
    fn put_field(out: &mut Vec<u8>, i: usize, a: i32, b: i64, c: Option<i16>) {
        match i {
            0 => { out.extend_from_slice(&4i32.to_be_bytes()); out.extend_from_slice(&a.to_be_bytes()); }
            1 => { out.extend_from_slice(&8i32.to_be_bytes()); out.extend_from_slice(&b.to_be_bytes()); }
            _ => match c {
                Some(v) => { out.extend_from_slice(&2i32.to_be_bytes()); out.extend_from_slice(&v.to_be_bytes()); }
                None => out.extend_from_slice(&(-1i32).to_be_bytes()),
            },
        }
    }
    /// spec: UDT value = [int total] then the fields' cells in DATABASE order
    fn spec_udt(order: [usize; 3], a: i32, b: i64, c: Option<i16>) -> Vec<u8> {
        let mut body = Vec::new();
        put_field(&mut body, order[0], a, b, c);
        put_field(&mut body, order[1], a, b, c);
        put_field(&mut body, order[2], a, b, c);
        let mut out = Vec::new();
        out.extend_from_slice(&(body.len() as i32).to_be_bytes());
        out.extend_from_slice(&body);
        out
    }

    /// C16.udt.by_name — for every order in which the database lists the fields: each value lands in the
    /// database's position, and value -> bytes -> value is the identity.
    /// serialization half only (cheap): bytes in database order
    fn body_udt_ser_by_name(order: [usize; 3]) {
        let v = ByName { a: kani::any(), b: kani::any(), c: kani::any() };
        let typ = udt(["a", "b", "c"], order);
        let mut buf = Vec::new();
        let r = MD::new(SerializeValue::serialize(&v, &typ, CellWriter::new(&mut buf)));
        assert!(r.is_ok());
        assert!(buf == spec_udt(order, v.a, v.b, v.c), "fields emitted in database order");
    }

    fn body_udt_by_name(order: [usize; 3]) {
        let v = ByName { a: kani::any(), b: kani::any(), c: kani::any() };
        let typ = udt(["a", "b", "c"], order);
        let mut buf = Vec::new();
        let r = MD::new(SerializeValue::serialize(&v, &typ, CellWriter::new(&mut buf)));
        assert!(r.is_ok());
        assert!(buf == spec_udt(order, v.a, v.b, v.c), "fields emitted in database order");
        assert!(MD::new(<ByName as DeserializeValue>::type_check(&typ)).is_ok());
        let back = MD::new(<ByName as DeserializeValue>::deserialize(&typ, Some(FrameSlice::new_borrowed(&buf[4..]))));
        assert!(matches!(&*back, Ok(b) if *b == v), "decode(encode(v)) == v");
    }

    /// C16.udt.enforce_order — the ordered flavour accepts precisely the declared order
    fn body_udt_enforce_order(order: [usize; 3]) {
        let v = Ordered { a: kani::any(), b: kani::any(), c: kani::any() };
        let typ = udt(["a", "b", "c"], order);
        let mut buf = Vec::new();
        let r = MD::new(SerializeValue::serialize(&v, &typ, CellWriter::new(&mut buf)));
        let declared = order == [0, 1, 2];
        assert!(r.is_ok() == declared, "ordered mode accepts precisely the declared order");
        assert!(MD::new(<Ordered as DeserializeValue>::type_check(&typ)).is_ok() == declared);
        if declared {
            assert!(buf == spec_udt(order, v.a, v.b, v.c));
        }
    }

    /// C16.udt.rename — renamed fields bind to the like-named database field (here names are deliberately crossed)
    fn body_udt_rename(order: [usize; 3]) {
        let v = Renamed { a: kani::any(), b: kani::any(), c: kani::any() };
        // database names of declared fields a,b,c are "x","b","a"
        let typ = udt(["x", "b", "a"], order);
        let mut buf = Vec::new();
        assert!(MD::new(SerializeValue::serialize(&v, &typ, CellWriter::new(&mut buf))).is_ok());
        assert!(buf == spec_udt(order, v.a, v.b, v.c));
        let back = MD::new(<Renamed as DeserializeValue>::deserialize(&typ, Some(FrameSlice::new_borrowed(&buf[4..]))));
        assert!(matches!(&*back, Ok(b) if *b == v));
    }

    /// C16.udt.missing_and_extra — default attributes: a database field unknown to the struct is rejected on
    /// serialization; a struct field missing from the database type is rejected.
    #[kani::proof]
    #[kani::unwind(4)]
    #[kani::stub(std::rt::thread_cleanup, noop)]
    #[kani::stub(alloc::fmt::format, empty_string)]
    fn c16_udt_missing_field_rejected() {
        let v = ByName { a: kani::any(), b: kani::any(), c: kani::any() };
        let typ = MD::new(ColumnType::UserDefinedType {
            frozen: false,
            definition: Arc::new(UserDefinedType {
                name: Cow::Borrowed("t"),
                keyspace: Cow::Borrowed("ks"),
                field_types: vec![(Cow::Borrowed("a"), native(0)), (Cow::Borrowed("zz"), native(1)), (Cow::Borrowed("c"), native(2))],
            }),
        });
        let mut buf = Vec::new();
        assert!(MD::new(SerializeValue::serialize(&v, &typ, CellWriter::new(&mut buf))).is_err(), "a struct field missing from the database type is rejected");
        assert!(MD::new(<ByName as DeserializeValue>::type_check(&typ)).is_err());
    }

    /// C16.udt.excess_field — default attributes: a database UDT field the struct does not know (at ANY of the 4
    /// positions, combined with any order of the known ones) gets a NULL cell in its own position and shifts nothing;
    /// reading ignores it.
    fn body_udt_excess(order: [usize; 3], pos: usize) {
        let v = ByName { a: kani::any(), b: kani::any(), c: kani::any() };
        let names = ["a", "b", "c"];
        let mut fields: Vec<(Cow<'static, str>, ColumnType<'static>)> = Vec::new();
        let mut expect_body: Vec<u8> = Vec::new();
        let mut k = 0;
        let mut i = 0;
        while i < 4 {
            if i == pos {
                fields.push((Cow::Borrowed("d"), ColumnType::Native(NativeType::Int)));
                expect_body.extend_from_slice(&(-1i32).to_be_bytes());
            } else {
                fields.push((Cow::Borrowed(names[order[k]]), native(order[k])));
                put_field(&mut expect_body, order[k], v.a, v.b, v.c);
                k += 1;
            }
            i += 1;
        }
        let typ = MD::new(ColumnType::UserDefinedType {
            frozen: false,
            definition: Arc::new(UserDefinedType { name: Cow::Borrowed("t"), keyspace: Cow::Borrowed("ks"), field_types: fields }),
        });
        let mut buf = Vec::new();
        assert!(MD::new(SerializeValue::serialize(&v, &typ, CellWriter::new(&mut buf))).is_ok(), "excess database fields are accepted by default");
        assert!(buf.len() == 4 + expect_body.len() && buf[4..] == expect_body[..], "NULL in the excess field's own position, nothing shifted");
        let back = MD::new(<ByName as DeserializeValue>::deserialize(&typ, Some(FrameSlice::new_borrowed(&buf[4..]))));
        assert!(matches!(&*back, Ok(b) if *b == v), "excess field ignored on read");
    }

    /// C16.udt.allow_missing — a field marked allow_missing is filled from the like-named database field wherever the
    /// database lists it (all 6 orders), and defaults only when the database type really lacks it.
    fn body_udt_allow_missing(order: [usize; 3]) {
        let v = WithOptional { a: kani::any(), b: kani::any(), c: kani::any() };
        let typ = udt(["a", "b", "c"], order);
        // bytes of the database value, independent of the struct
        let mut body = Vec::new();
        let mut i = 0;
        while i < 3 {
            match order[i] {
                0 => { body.extend_from_slice(&4i32.to_be_bytes()); body.extend_from_slice(&v.a.to_be_bytes()); }
                1 => match v.b { Some(x) => { body.extend_from_slice(&8i32.to_be_bytes()); body.extend_from_slice(&x.to_be_bytes()); } None => body.extend_from_slice(&(-1i32).to_be_bytes()) },
                _ => match v.c { Some(x) => { body.extend_from_slice(&2i32.to_be_bytes()); body.extend_from_slice(&x.to_be_bytes()); } None => body.extend_from_slice(&(-1i32).to_be_bytes()) },
            }
            i += 1;
        }
        assert!(MD::new(<WithOptional as DeserializeValue>::type_check(&typ)).is_ok());
        let back = MD::new(<WithOptional as DeserializeValue>::deserialize(&typ, Some(FrameSlice::new_borrowed(&body))));
        assert!(matches!(&*back, Ok(b) if *b == v), "every field, optional or not, is filled from the like-named database field");
    }

    /// C16.row.by_name — derived row binding: columns in any order
    fn body_row_by_name(order: [usize; 3]) {
        let v = ByName { a: kani::any(), b: kani::any(), c: kani::any() };
        let names = ["a", "b", "c"];
        let ts = TableSpec::borrowed("ks", "t");
        let specs = MD::new([
            ColumnSpec::borrowed(names[order[0]], native(order[0]), ts.clone()),
            ColumnSpec::borrowed(names[order[1]], native(order[1]), ts.clone()),
            ColumnSpec::borrowed(names[order[2]], native(order[2]), ts.clone()),
        ]);
        let specs: &[ColumnSpec; 3] = &specs;
        let ctx = RowSerializationContext::from_specs(specs);
        let mut buf = Vec::new();
        let mut w = RowWriter::new(&mut buf);
        assert!(MD::new(SerializeRow::serialize(&v, &ctx, &mut w)).is_ok());
        assert!(w.value_count() == 3);
        let mut expect = Vec::new();
        put_field(&mut expect, order[0], v.a, v.b, v.c);
        put_field(&mut expect, order[1], v.a, v.b, v.c);
        put_field(&mut expect, order[2], v.a, v.b, v.c);
        assert!(buf == expect, "each value in the database's column position");
        assert!(MD::new(<ByName as DeserializeRow>::type_check(specs)).is_ok());
        let back = MD::new(<ByName as DeserializeRow>::deserialize(ColumnIterator::new(specs, FrameSlice::new_borrowed(&buf))));
        assert!(matches!(&*back, Ok(b) if *b == v));
    }

    per_perm!(body_udt_ser_by_name: c16_udt_ser_by_name_p3 = 3);
    per_perm!(body_udt_by_name: c16_udt_by_name_p0 = 0, c16_udt_by_name_p1 = 1, c16_udt_by_name_p2 = 2, c16_udt_by_name_p3 = 3, c16_udt_by_name_p4 = 4, c16_udt_by_name_p5 = 5);
    per_perm!(body_udt_enforce_order: c16_udt_enforce_order_p0 = 0, c16_udt_enforce_order_p1 = 1, c16_udt_enforce_order_p2 = 2, c16_udt_enforce_order_p3 = 3, c16_udt_enforce_order_p4 = 4, c16_udt_enforce_order_p5 = 5);
    per_perm!(body_udt_rename: c16_udt_rename_p0 = 0, c16_udt_rename_p1 = 1, c16_udt_rename_p2 = 2, c16_udt_rename_p3 = 3, c16_udt_rename_p4 = 4, c16_udt_rename_p5 = 5);
    per_perm!(body_udt_allow_missing: c16_udt_allow_missing_p0 = 0, c16_udt_allow_missing_p1 = 1, c16_udt_allow_missing_p2 = 2, c16_udt_allow_missing_p3 = 3, c16_udt_allow_missing_p4 = 4, c16_udt_allow_missing_p5 = 5);
    per_perm!(body_row_by_name: c16_row_by_name_p0 = 0, c16_row_by_name_p1 = 1, c16_row_by_name_p2 = 2, c16_row_by_name_p3 = 3, c16_row_by_name_p4 = 4, c16_row_by_name_p5 = 5);

    macro_rules! per_excess {
        ($($name:ident = ($p:expr, $pos:expr)),* $(,)?) => {$(
            #[kani::proof]
            #[kani::unwind(4)]
            #[kani::stub(std::rt::thread_cleanup, noop)]
            #[kani::stub(alloc::fmt::format, empty_string)]
            fn $name() { body_udt_excess(PERMS[$p], $pos); }
        )*};
    }
    // excess field at each of the 4 positions, with the known fields in declared and in reversed order
    per_excess!(c16_udt_excess_p0_at0 = (0, 0), c16_udt_excess_p0_at1 = (0, 1), c16_udt_excess_p0_at2 = (0, 2), c16_udt_excess_p0_at3 = (0, 3),
                c16_udt_excess_p5_at0 = (5, 0), c16_udt_excess_p5_at1 = (5, 1), c16_udt_excess_p5_at2 = (5, 2), c16_udt_excess_p5_at3 = (5, 3));

    /// canary
    #[kani::proof]
    #[kani::unwind(4)]
    #[kani::should_panic]
    #[kani::stub(std::rt::thread_cleanup, noop)]
    #[kani::stub(alloc::fmt::format, empty_string)]
    fn c16_canary_declared_order_on_the_wire() {
        let v = ByName { a: kani::any(), b: kani::any(), c: kani::any() };
        let typ = udt(["a", "b", "c"], [1, 0, 2]);
        let mut buf = Vec::new();
        let _ = MD::new(SerializeValue::serialize(&v, &typ, CellWriter::new(&mut buf)));
        assert!(buf == spec_udt([0, 1, 2], v.a, v.b, v.c));
    }
}
