// C02 — StreamIdSet::allocate on the real code (the Verus unit c02_handler_map assumes exactly this contract).
#![allow(dead_code, unused_imports)]
mod c02 {
    use super::super::*;

    const WORDS: usize = 512;

    /// 512-word bitmap (the real size): words 0..k full, word k ANY non-full word, later words zero.
    /// (Fully symbolic 512-word states are out of CBMC's reach here: > 10 min and > 5 GB per case.)
    fn allocate_case(k: usize) {
        let mut words = [0u64; WORDS];
        let mut i = 0;
        while i < k {
            words[i] = !0u64;
            i += 1;
        }
        let v: u64 = kani::any();
        kani::assume(v != !0u64);
        words[k] = v;
        let mut set = StreamIdSet { used_bitmap: Box::new(words) };
        let got = set.allocate();
        // lowest clear bit of v, characterised without using trailing_ones()
        let t: u32 = kani::any();
        kani::assume(t < 64 && (v >> t) & 1 == 0 && (v & ((1u64 << t) - 1)) == (1u64 << t) - 1);
        match got {
            Some(id) => {
                assert!(id >= 0, "id is a valid (non-negative) stream id");
                assert!(id as usize == 64 * k + t as usize, "lowest free id is returned");
                assert!(set.used_bitmap[k] == v | (1u64 << t), "exactly that id becomes used");
                let j: usize = kani::any();
                kani::assume(j < WORDS && j != k);
                assert!(set.used_bitmap[j] == if j < k { !0u64 } else { 0 }, "other words unchanged");
            }
            None => assert!(false, "a free id exists, None is wrong"),
        }
    }

    #[kani::proof]
    #[kani::unwind(514)]
    fn c02_allocate_512_k000() { allocate_case(0); }
    #[kani::proof]
    #[kani::unwind(514)]
    fn c02_allocate_512_k255() { allocate_case(255); }
    #[kani::proof]
    #[kani::unwind(514)]
    fn c02_allocate_512_k511() { allocate_case(511); }

    /// The complete contract on an 8-word bitmap with EVERY word symbolic: the result is the minimum free id,
    /// exactly its bit is set, no other word changes, None iff all full. (The function is uniform in the
    /// number of words; this is the bounded stand-in for the 512-word contract assumed by the Verus unit.)
    #[kani::proof]
    #[kani::unwind(10)]
    fn c02_allocate_small8() {
        const N: usize = 8;
        let words: [u64; N] = kani::any();
        let mut set = StreamIdSet { used_bitmap: Box::new(words) };
        let got = set.allocate();
        match got {
            Some(id) => {
                assert!(id >= 0 && (id as usize) < 64 * N);
                let (b, o) = (id as usize / 64, id as usize % 64);
                assert!((words[b] >> o) & 1 == 0, "the id was free");
                // minimality: every smaller id was in use
                let q: usize = kani::any();
                kani::assume(q < id as usize);
                assert!((words[q / 64] >> (q % 64)) & 1 == 1, "no smaller free id");
                let j: usize = kani::any();
                kani::assume(j < N);
                if j == b {
                    assert!(set.used_bitmap[j] == words[j] | (1u64 << o));
                } else {
                    assert!(set.used_bitmap[j] == words[j], "other words unchanged");
                }
            }
            None => {
                let j: usize = kani::any();
                kani::assume(j < N);
                assert!(words[j] == !0u64 && set.used_bitmap[j] == !0u64, "None only when every id is used");
            }
        }
        kani::cover!(got.is_none());
        kani::cover!(got == Some(447));
    }

    /// all 512 words full => None and nothing changes
    #[kani::proof]
    #[kani::unwind(514)]
    fn c02_allocate_full() {
        let mut set = StreamIdSet { used_bitmap: Box::new([!0u64; WORDS]) };
        assert!(set.allocate().is_none());
        let mut j = 0;
        while j < WORDS {
            assert!(set.used_bitmap[j] == !0u64);
            j += 1;
        }
    }

    /// StreamIdSet::new has 512 zero words (the shape the cases above quantify over)
    #[kani::proof]
    #[kani::unwind(514)]
    fn c02_new_shape() {
        let set = StreamIdSet::new();
        assert!(set.used_bitmap.len() == WORDS);
        let j: usize = kani::any();
        kani::assume(j < WORDS);
        assert!(set.used_bitmap[j] == 0);
    }

    fn zero_random_state() -> std::hash::RandomState { unsafe { std::mem::zeroed() } }
    fn zero_instant() -> std::time::Instant { unsafe { std::mem::zeroed() } }

    /// twin of the Verus contracts of ResponseHandlerMap::{allocate, orphan, lookup} on the compiled code, one short
    /// history: A allocated, A abandoned, B allocated before the server answered A => B must NOT get A's stream id,
    /// and A's late response must be reported as Orphaned, never delivered to B.
    #[kani::proof]
    #[kani::unwind(10)]
    #[kani::stub(std::rt::thread_cleanup, noop)]
    #[kani::stub(std::hash::RandomState::new, zero_random_state)]
    #[kani::stub(std::time::Instant::now, zero_instant)]
    fn c02_twin_orphaned_id_stays_reserved() {
        let mut bitmap = [!0u64; 8];
        bitmap[0] = !0b11; // two free ids: 0 and 1
        let mut m = std::mem::ManuallyDrop::new(ResponseHandlerMap {
            stream_set: StreamIdSet { used_bitmap: Box::new(bitmap) },
            handlers: HashMap::new(),
            request_to_stream: HashMap::new(),
            orphanage_tracker: OrphanageTracker::new(),
        });
        let (tx_a, _rx_a) = oneshot::channel();
        let (tx_b, _rx_b) = oneshot::channel();
        let a = match m.allocate(ResponseHandler { response_sender: tx_a, request_id: 7 }) { Ok(id) => id, Err(_) => { assert!(false); return; } };
        m.orphan(7);
        let b = match m.allocate(ResponseHandler { response_sender: tx_b, request_id: 8 }) { Ok(id) => id, Err(_) => { assert!(false); return; } };
        assert!(a == 0 && b == 1, "an abandoned request keeps its stream id until the server answers");
        let la = std::mem::ManuallyDrop::new(m.lookup(a));
        assert!(matches!(&*la, HandlerLookupResult::Orphaned), "the late response to the abandoned request is dropped, not delivered");
        let lb = std::mem::ManuallyDrop::new(m.lookup(b));
        assert!(matches!(&*lb, HandlerLookupResult::Handler(h) if h.request_id == 8), "B receives exactly its own response");
    }

    fn noop() {}

    /// canary: claim that allocate returns id 0 on any state with a free id (false) must be refuted
    #[kani::proof]
    #[kani::unwind(514)]
    #[kani::should_panic]
    fn c02_canary_allocate_zero() {
        let mut words = [!0u64; WORDS];
        words[3] = kani::any();
        kani::assume(words[3] != !0u64);
        let mut set = StreamIdSet { used_bitmap: Box::new(words) };
        assert!(set.allocate() == Some(0));
    }
}
