// C02 — StreamIdSet::allocate on the real code (the Verus unit c02_handler_map assumes exactly this contract).
#![allow(dead_code, unused_imports)]
mod c02 {
    use super::super::*;

    const WORDS: usize = 512;

    /// Case `k`: words 0..k are full (that is what "k is the first non-full word" means), word k is any
    /// non-full word, words after k are arbitrary. Every bitmap with a free id is exactly one such case.
    fn allocate_case(k: usize) {
        let mut words = [0u64; WORDS];
        let mut i = 0;
        while i < WORDS {
            words[i] = if i < k { !0u64 } else { kani::any() };
            i += 1;
        }
        let v = words[k];
        kani::assume(v != !0u64);
        let before = words;
        let mut set = StreamIdSet { used_bitmap: Box::new(words) };
        let got = set.allocate();
        // lowest clear bit of v, characterised without using trailing_ones()
        let t: u32 = kani::any();
        kani::assume(t < 64 && (v >> t) & 1 == 0 && (v & ((1u64 << t) - 1)) == (1u64 << t) - 1);
        match got {
            Some(id) => {
                assert!(id >= 0, "id is a valid (non-negative) stream id");
                assert!(id as usize == 64 * k + t as usize, "lowest free id is returned");
                let mut j = 0;
                while j < WORDS {
                    if j == k {
                        assert!(set.used_bitmap[j] == v | (1u64 << t), "exactly that id becomes used");
                    } else {
                        assert!(set.used_bitmap[j] == before[j], "other words unchanged");
                    }
                    j += 1;
                }
            }
            None => assert!(false, "a free id exists, None is wrong"),
        }
    }

    macro_rules! allocate_blocks {
        ($($name:ident = $b:expr),* $(,)?) => {$(
            /// k in 32*b .. 32*b+32 (concrete), everything else symbolic
            #[kani::proof]
            #[kani::unwind(514)]
            fn $name() {
                let mut k = 32 * $b;
                while k < 32 * $b + 32 {
                    allocate_case(k);
                    k += 1;
                }
            }
        )*};
    }
    allocate_blocks!(
        c02_allocate_b00 = 0, c02_allocate_b01 = 1, c02_allocate_b02 = 2, c02_allocate_b03 = 3,
        c02_allocate_b04 = 4, c02_allocate_b05 = 5, c02_allocate_b06 = 6, c02_allocate_b07 = 7,
        c02_allocate_b08 = 8, c02_allocate_b09 = 9, c02_allocate_b10 = 10, c02_allocate_b11 = 11,
        c02_allocate_b12 = 12, c02_allocate_b13 = 13, c02_allocate_b14 = 14, c02_allocate_b15 = 15,
    );

    #[kani::proof]
    #[kani::unwind(514)]
    fn c02_probe_k000() { allocate_case(0); }
    #[kani::proof]
    #[kani::unwind(514)]
    fn c02_probe_k300() { allocate_case(300); }
    #[kani::proof]
    #[kani::unwind(514)]
    fn c02_probe_k511() { allocate_case(511); }

    /// all 512 words full => None and nothing changes
    #[kani::proof]
    #[kani::unwind(514)]
    fn c02_allocate_full() {
        let mut set = StreamIdSet { used_bitmap: Box::new([!0u64; WORDS]) };
        assert!(set.allocate().is_none());
        let mut j = 0;
        while j < WORDS {
            assert!(set.used_bitmap[j] == !0u64);
            j += 1;
        }
    }

    /// StreamIdSet::new has 512 zero words (the shape the cases above quantify over)
    #[kani::proof]
    #[kani::unwind(514)]
    fn c02_new_shape() {
        let set = StreamIdSet::new();
        assert!(set.used_bitmap.len() == WORDS);
        let j: usize = kani::any();
        kani::assume(j < WORDS);
        assert!(set.used_bitmap[j] == 0);
    }

    /// canary: claim that allocate returns id 0 on any state with a free id (false) must be refuted
    #[kani::proof]
    #[kani::unwind(514)]
    #[kani::should_panic]
    fn c02_canary_allocate_zero() {
        let mut words = [!0u64; WORDS];
        words[3] = kani::any();
        kani::assume(words[3] != !0u64);
        let mut set = StreamIdSet { used_bitmap: Box::new(words) };
        assert!(set.allocate() == Some(0));
    }
}
