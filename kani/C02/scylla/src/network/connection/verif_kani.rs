// C02 — StreamIdSet::allocate on the real code (the Verus unit c02_handler_map assumes exactly this contract).
#![allow(dead_code, unused_imports)]
mod c02 {
    use super::super::*;

    const WORDS: usize = 512;

    /// 512-word bitmap (the real size): words 0..k full, word k ANY non-full word, later words zero.
    /// (Fully symbolic 512-word states are out of CBMC's reach here: > 10 min and > 5 GB per case.)
    fn allocate_case(k: usize) {
        let mut words = [0u64; WORDS];
        let mut i = 0;
        while i < k {
            words[i] = !0u64;
            i += 1;
        }
        let v: u64 = kani::any();
        kani::assume(v != !0u64);
        words[k] = v;
        let mut set = StreamIdSet { used_bitmap: Box::new(words) };
        let got = set.allocate();
        // lowest clear bit of v, characterised without using trailing_ones()
        let t: u32 = kani::any();
        kani::assume(t < 64 && (v >> t) & 1 == 0 && (v & ((1u64 << t) - 1)) == (1u64 << t) - 1);
        match got {
            Some(id) => {
                assert!(id >= 0, "id is a valid (non-negative) stream id");
                assert!(id as usize == 64 * k + t as usize, "lowest free id is returned");
                assert!(set.used_bitmap[k] == v | (1u64 << t), "exactly that id becomes used");
                let j: usize = kani::any();
                kani::assume(j < WORDS && j != k);
                assert!(set.used_bitmap[j] == if j < k { !0u64 } else { 0 }, "other words unchanged");
            }
            None => assert!(false, "a free id exists, None is wrong"),
        }
    }

    #[kani::proof]
    #[kani::unwind(514)]
    fn c02_allocate_512_k000() { allocate_case(0); }
    #[kani::proof]
    #[kani::unwind(514)]
    fn c02_allocate_512_k255() { allocate_case(255); }
    #[kani::proof]
    #[kani::unwind(514)]
    fn c02_allocate_512_k511() { allocate_case(511); }

    /// The complete contract on an 8-word bitmap with EVERY word symbolic: the result is the minimum free id,
    /// exactly its bit is set, no other word changes, None iff all full. (The function is uniform in the
    /// number of words; this is the bounded stand-in for the 512-word contract assumed by the Verus unit.)
    #[kani::proof]
    #[kani::unwind(10)]
    fn c02_allocate_small8() {
        const N: usize = 8;
        let words: [u64; N] = kani::any();
        let mut set = StreamIdSet { used_bitmap: Box::new(words) };
        let got = set.allocate();
        match got {
            Some(id) => {
                assert!(id >= 0 && (id as usize) < 64 * N);
                let (b, o) = (id as usize / 64, id as usize % 64);
                assert!((words[b] >> o) & 1 == 0, "the id was free");
                // minimality: every smaller id was in use
                let q: usize = kani::any();
                kani::assume(q < id as usize);
                assert!((words[q / 64] >> (q % 64)) & 1 == 1, "no smaller free id");
                let j: usize = kani::any();
                kani::assume(j < N);
                if j == b {
                    assert!(set.used_bitmap[j] == words[j] | (1u64 << o));
                } else {
                    assert!(set.used_bitmap[j] == words[j], "other words unchanged");
                }
            }
            None => {
                let j: usize = kani::any();
                kani::assume(j < N);
                assert!(words[j] == !0u64 && set.used_bitmap[j] == !0u64, "None only when every id is used");
            }
        }
        kani::cover!(got.is_none());
        kani::cover!(got == Some(447));
    }

    /// all 512 words full => None and nothing changes
    #[kani::proof]
    #[kani::unwind(514)]
    fn c02_allocate_full() {
        let mut set = StreamIdSet { used_bitmap: Box::new([!0u64; WORDS]) };
        assert!(set.allocate().is_none());
        let mut j = 0;
        while j < WORDS {
            assert!(set.used_bitmap[j] == !0u64);
            j += 1;
        }
    }

    /// StreamIdSet::new has 512 zero words (the shape the cases above quantify over)
    #[kani::proof]
    #[kani::unwind(514)]
    fn c02_new_shape() {
        let set = StreamIdSet::new();
        assert!(set.used_bitmap.len() == WORDS);
        let j: usize = kani::any();
        kani::assume(j < WORDS);
        assert!(set.used_bitmap[j] == 0);
    }

    // (A Kani twin driving ResponseHandlerMap through allocate/orphan/allocate/lookup with real std HashMaps was tried:
    //  no answer after 40 min and 8 GB — std HashMap is out of CBMC's reach here, so the map is covered by Verus only.)
    fn noop() {}

    /// canary: claim that allocate returns id 0 on any state with a free id (false) must be refuted
    #[kani::proof]
    #[kani::unwind(10)]
    #[kani::should_panic]
    fn c02_canary_allocate_zero() {
        let mut words = [!0u64; 8];
        words[3] = kani::any();
        kani::assume(words[3] != !0u64);
        let mut set = StreamIdSet { used_bitmap: Box::new(words) };
        assert!(set.allocate() == Some(0));
    }
}
