#!/bin/bash
# confirm_seed.sh <worktree> <seed dir> <crate> <test filter>  — confirms a seeded change in a scratch worktree:
#   1. patch+demo: demo test fails   2. demo only: passes   3. patch only: the crate's existing tests for <filter> pass
set -u
WT=$1; SD=$2; CRATE=$3; FILTER=$4
export CARGO_TARGET_DIR=$WT/target CARGO_NET_OFFLINE=true
cd $WT || exit 2
git checkout -q -- . ; git clean -fdq -e _seed -e target
res() { echo "$1: $2"; }
git apply $SD/patch.diff && git apply $SD/demo.diff || { echo "APPLY-FAILED"; exit 2; }
cargo test -p $CRATE --lib --offline -- $FILTER > $SD/confirm_patch_demo.log 2>&1; A=$?
git checkout -q -- . ; git apply $SD/demo.diff
cargo test -p $CRATE --lib --offline -- $FILTER > $SD/confirm_demo_only.log 2>&1; B=$?
git checkout -q -- . ; git apply $SD/patch.diff
cargo test -p $CRATE --lib --offline -- $FILTER > $SD/confirm_patch_only.log 2>&1; C=$?
git checkout -q -- .
echo "patch+demo rc=$A (want !=0) ; demo-only rc=$B (want 0) ; patch-only existing tests rc=$C (want 0)"
grep -h "test result" $SD/confirm_patch_demo.log $SD/confirm_demo_only.log $SD/confirm_patch_only.log
if [ $A -ne 0 ] && [ $B -eq 0 ] && [ $C -eq 0 ]; then echo CONFIRMED; else echo NOT-CONFIRMED; fi
