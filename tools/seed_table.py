#!/usr/bin/env python3
"""Prints the markdown table of seeded changes and what the checks reported (from seeded/*/meta.json)."""
import json, os, glob
rows = []
for d in sorted(glob.glob("/verif/seeded/*/meta.json")):
    m = json.load(open(d))
    name = os.path.basename(os.path.dirname(d))
    det = m.get("detection", {})
    def cell(t):
        x = det.get(t)
        if not x:
            return "not run"
        r = x["verdict"]
        if x.get("with_counterexample"):
            r += " + replayable input"
        ob = [l for l in x.get("report", []) if l.strip().startswith("obligation")]
        if ob:
            r += " — " + ob[0].strip().split(" (")[0].replace("obligation ", "")
        return r
    rows.append(f"| {name} | {m['needs_to_manifest']} | {cell('quick')} | {cell('thorough')} |")
print("| seed | needs, to manifest | quick check | thorough check |\n|---|---|---|---|")
print("\n".join(rows))
