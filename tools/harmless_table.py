#!/usr/bin/env python3
"""Prints the markdown table of behaviour-preserving edits and what the checks reported (from harmless/*/meta.json)."""
import json, os, glob
rows = []
for d in sorted(glob.glob("/verif/harmless/*/meta.json")):
    m = json.load(open(d))
    name = os.path.basename(os.path.dirname(d))
    x = m.get("detection", {}).get("quick")
    if not x:
        r = "not run"
    else:
        r = x["verdict"]
        und = [l for l in x.get("report", []) if l.startswith("UNDECIDED")]
        if und:
            r += " — " + und[0][len("UNDECIDED "):].split(": ", 1)[-1][:110]
    rows.append(f"| {name} | {m['what']} | {r} |")
print("| edit | what is rewritten (behaviour unchanged) | quick check |\n|---|---|---|")
print("\n".join(rows))
