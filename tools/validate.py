#!/usr/bin/env python3
"""validate.py — MANIFEST.json and evidence/*.json against the schemas in /root/.vp (run with python3-vt: needs jsonschema)."""
import json, glob, sys
import jsonschema
bad = 0
def check(path, schema):
    global bad
    try:
        jsonschema.validate(json.load(open(path)), json.load(open(schema)))
        print("ok  ", path)
    except Exception as e:
        bad += 1
        print("BAD ", path, str(e)[:300])
check("/verif/MANIFEST.json", "/root/.vp/MANIFEST.schema.json")
for p in sorted(glob.glob("/verif/evidence/C*.json")):
    if p.endswith(".seedrun.json"):
        continue
    check(p, "/root/.vp/EVIDENCE.schema.json")
man = json.load(open("/verif/MANIFEST.json"))
claimed = {c["property_id"] for c in man["checks"]}
na = {x["property_id"] for x in man.get("not_applicable", [])}
allp = {json.loads(l)["id"] for l in open("/verif/properties.jsonl")}
print("claimed", sorted(claimed)); print("n/a", sorted(na)); print("unaccounted", sorted(allp - claimed - na))
sys.exit(1 if bad or (allp - claimed - na) else 0)
