#!/usr/bin/env python3
"""import_seed.py <PROP> <n> <seed dir> <crate> <filter> "<needs>" — copies a confirmed seeded change into /verif/seeded/<PROP>-<n>/"""
import json, os, shutil, sys, re
prop, n, sd, crate, flt, needs = sys.argv[1:7]
dst = f"/verif/seeded/{prop}-{n}"
os.makedirs(dst, exist_ok=True)
for f in ("patch.diff", "demo.diff", "README.md"):
    shutil.copy(os.path.join(sd, f), os.path.join(dst, f))
conf = {}
for f in ("confirm_patch_demo.log", "confirm_demo_only.log", "confirm_patch_only.log"):
    p = os.path.join(sd, f)
    if os.path.exists(p):
        t = open(p, errors="replace").read()
        m = re.findall(r"test result: .*", t)
        conf[f] = m[-1] if m else "no result line"
meta = {
    "property": prop,
    "origin": "independent sub-agent given only the property text and a scratch worktree",
    "needs_to_manifest": needs,
    "confirmed_by_me": {
        "how": f"tools/confirm_seed.sh in a scratch worktree: cargo test -p {crate} --lib --offline -- {flt}",
        "patch+demo (must fail)": conf.get("confirm_patch_demo.log"),
        "demo only (must pass)": conf.get("confirm_demo_only.log"),
        "patch only, existing tests (must pass)": conf.get("confirm_patch_only.log"),
    },
    "detection": {},
}
mp = os.path.join(dst, "meta.json")
if os.path.exists(mp):
    old = json.load(open(mp))
    meta["detection"] = old.get("detection", {})
json.dump(meta, open(mp, "w"), indent=1)
print("imported", dst)
