#!/usr/bin/env python3
"""run_seed.py <PROP-n> [--tier quick] — runs the property's check against a copy of /repo with the seeded patch
applied (VERIF_REPO override; /repo itself is not touched) and records what the check reported in meta.json."""
import json, os, re, shutil, subprocess, sys, time
name = sys.argv[1]
tier = sys.argv[sys.argv.index("--tier") + 1] if "--tier" in sys.argv else "quick"
prop = name.split("-")[0]
base = sys.argv[sys.argv.index("--dir") + 1] if "--dir" in sys.argv else "seeded"
sd = f"/verif/{base}/{name}"
cp = f"/var/tmp/seedrepo-{name}"
shutil.rmtree(cp, ignore_errors=True)
subprocess.run(["rsync", "-a", "--exclude", "/target", "--exclude", "/.git", "/repo/", cp + "/"], check=True)
subprocess.run(["git", "init", "-q"], cwd=cp, check=True)
r = subprocess.run(["git", "apply", os.path.join(sd, "patch.diff")], cwd=cp)
if r.returncode != 0:
    print("patch does not apply"); sys.exit(2)
env = dict(os.environ, VERIF_REPO=cp)
t0 = time.time()
p = subprocess.run(["/verif/check", prop, "--tier", tier], cwd="/verif", env=env, capture_output=True, text=True)
out = p.stdout + p.stderr
shutil.rmtree(cp, ignore_errors=True)
lines = [l for l in out.splitlines() if re.match(r"(VIOLATION|UNDECIDED|KNOWN-FINDING|\[C\d+\]|  obligation|    failed)", l)]
meta = json.load(open(os.path.join(sd, "meta.json")))
verdict = "caught" if p.returncode == 1 and "VIOLATION" in out else ("undecided (exit 2, no VIOLATION line)" if p.returncode == 2 else "MISSED (exit 0)")
if base == "harmless":
    verdict = {0: "held (exit 0)", 1: "FALSE ALARM (exit 1)", 2: "undecided (exit 2, no VIOLATION line)"}.get(p.returncode, f"exit {p.returncode}")
meta["detection"][tier] = {"exit": p.returncode, "verdict": verdict, "wall_s": round(time.time() - t0), "report": lines[:12],
                           "with_counterexample": ("VIOLATION" in out and not all(l.rstrip().endswith("no-failing-input-found") for l in out.splitlines() if l.startswith("VIOLATION")))}
json.dump(meta, open(os.path.join(sd, "meta.json"), "w"), indent=1)
# evidence files are rewritten by every run: restore the unchanged-tree evidence afterwards is the caller's job
print(name, tier, verdict, f"{time.time()-t0:.0f}s")
for l in lines[:8]:
    print("   ", l[:220])
