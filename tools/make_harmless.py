#!/usr/bin/env python3
"""make_harmless.py — writes behaviour-preserving edits of /repo as patches under /verif/harmless/<ID>-h<n>/patch.diff.
Each is (file, old text, new text, note); the old text must occur exactly once."""
import os, subprocess, shutil, json
EDITS = {
 "C11-h1": ("scylla/src/routing/sharding.rs",
   "        let mut biased_token = (token.value as u64).wrapping_add(1u64 << 63);\n        biased_token <<= self.msb_ignore;\n        (((biased_token as u128) * (self.nr_shards.get() as u128)) >> 64) as Shard",
   "        let biased = (token.value as u64).wrapping_add(1u64 << 63);\n        let shifted = biased << self.msb_ignore;\n        let shards = self.nr_shards.get() as u128;\n        (((shifted as u128) * shards) >> 64) as Shard",
   "shard_of: locals renamed, compound assignment split into a new binding, factor named"),
 "C02-h1": ("scylla/src/network/connection.rs",
   "        let block_id = stream_id as usize / 64;\n        let off = stream_id as usize % 64;\n        self.used_bitmap[block_id] &= !(1 << off);",
   "        let bit = stream_id as usize % 64;\n        let word = stream_id as usize / 64;\n        self.used_bitmap[word] &= !(1 << bit);",
   "StreamIdSet::free: two independent lets reordered and renamed"),
 "C08-h1": ("scylla-cql-core/src/frame/types.rs",
   "    let len = read_int(buf)?;\n    if len < 0 {\n        return Ok(None);\n    }\n    let len = len as usize;\n    let v = Some(read_raw_bytes(len, buf)?);\n    Ok(v)",
   "    let announced = read_int(buf)?;\n    if announced < 0 {\n        return Ok(None);\n    }\n    let n = announced as usize;\n    let bytes = read_raw_bytes(n, buf)?;\n    Ok(Some(bytes))",
   "read_bytes_opt: locals renamed, Some(..) built at the return instead of at the let"),
 "C09-h1": ("scylla-cql/src/frame/types.rs",
   "    let v: u16 = v.try_into()?;\n    write_short(v, buf);\n    Ok(())\n}\n\n#[test]\nfn type_short()",
   "    let len: u16 = v.try_into()?;\n    write_short(len, buf);\n    Ok(())\n}\n\n#[test]\nfn type_short()",
   "write_short_length: shadowing binding renamed"),
 "C15-h1": ("scylla/src/routing/locator/tablets.rs",
   "        let idx = self\n            .tablet_list\n            .partition_point(|tablet| tablet.last_token < token);\n        let tablet = self.tablet_list.get(idx);\n        tablet.filter(|t| t.first_token <= token)",
   "        let pos = self\n            .tablet_list\n            .partition_point(|candidate| candidate.last_token < token);\n        let found = self.tablet_list.get(pos);\n        found.filter(|t| t.first_token <= token)",
   "tablet_for_token: locals and closure parameter renamed"),
 "C06-h1": ("scylla/src/policies/retry/default.rs",
   "            RequestAttemptError::BrokenConnectionError(_) => {\n                if request_info.is_idempotent {\n                    RetryDecision::RetryNextTarget(None)\n                } else {\n                    RetryDecision::DontRetry\n                }\n            }",
   "            RequestAttemptError::BrokenConnectionError(_) => {\n                if !request_info.is_idempotent {\n                    RetryDecision::DontRetry\n                } else {\n                    RetryDecision::RetryNextTarget(None)\n                }\n            }",
   "DefaultRetrySession::decide_should_retry: one if/else written with the negated condition and swapped branches"),
 "C03-h1": ("scylla/src/routing/partitioner.rs",
   "            while pk_part.len() >= Self::BUF_CAPACITY {\n                let (k1, k2) = Self::fetch_16_bytes_from_buf(&mut pk_part);\n                self.hash_16_bytes(k1, k2);\n            }",
   "            while pk_part.len() >= Self::BUF_CAPACITY {\n                let (lo, hi) = Self::fetch_16_bytes_from_buf(&mut pk_part);\n                self.hash_16_bytes(lo, hi);\n            }",
   "Murmur3PartitionerHasher::write: the two block words renamed in the block loop"),
 "C01-h1": ("scylla-cql-core/src/serialize/writers.rs",
   "        let value_len: i32 = contents.len().try_into().map_err(|_| CellOverflowError)?;\n        if self.write_size {\n            self.buf.extend_from_slice(&value_len.to_be_bytes());\n        }\n        self.buf.extend_from_slice(contents);\n        Ok(WrittenCellProof::new())",
   "        let len: i32 = contents.len().try_into().map_err(|_| CellOverflowError)?;\n        if self.write_size {\n            self.buf.extend_from_slice(&len.to_be_bytes());\n        }\n        self.buf.extend_from_slice(contents);\n        let proof = WrittenCellProof::new();\n        Ok(proof)",
   "CellWriter::set_value: local renamed, result bound to a name before it is returned"),
 "C17-h1": ("scylla-cql-core/src/serialize/row.rs",
   "        let len_before_serialize: usize = self.serialized_values.len();\n\n        let writer = CellWriter::new(&mut self.serialized_values);\n        if let Err(e) = val.serialize(typ, writer) {\n            self.serialized_values.resize(len_before_serialize, 0);\n            Err(e)",
   "        let rollback_to: usize = self.serialized_values.len();\n\n        let writer = CellWriter::new(&mut self.serialized_values);\n        if let Err(e) = val.serialize(typ, writer) {\n            self.serialized_values.resize(rollback_to, 0);\n            Err(e)",
   "SerializedValues::add_value: local renamed"),
 "C20-h1": ("scylla/src/network/connection.rs",
   "        let keyspace_name_len: usize = keyspace_name.chars().count(); // Only ascii allowed so it's equal to .len()\n        if keyspace_name_len > 48 {\n            return Err(BadKeyspaceName::TooLong(\n                keyspace_name.to_string(),\n                keyspace_name_len,\n            ));\n        }",
   "        let n_chars: usize = keyspace_name.chars().count(); // Only ascii allowed so it's equal to .len()\n        if n_chars > 48 {\n            return Err(BadKeyspaceName::TooLong(\n                keyspace_name.to_string(),\n                n_chars,\n            ));\n        }",
   "VerifiedKeyspaceName::verify_keyspace_name_is_valid: local renamed"),
 "C18-h1": ("scylla/src/policies/timestamp_generator.rs",
   "            let last = self.last.load(Ordering::SeqCst);\n            let cur = self.compute_next(last);\n            if self\n                .last\n                .compare_exchange(last, cur, Ordering::SeqCst, Ordering::SeqCst)\n                .is_ok()\n            {\n                return cur;\n            }",
   "            let seen = self.last.load(Ordering::SeqCst);\n            let next = self.compute_next(seen);\n            let swapped = self\n                .last\n                .compare_exchange(seen, next, Ordering::SeqCst, Ordering::SeqCst);\n            if swapped.is_ok() {\n                return next;\n            }",
   "MonotonicTimestampGenerator::next_timestamp: locals renamed, CAS result bound to a name"),
 "C19-h1": ("scylla/src/cluster/metadata/merge_channel.rs",
   "        let has_value = {\n            let mut slot = self.shared.slot.lock().unwrap();\n            f(&mut slot);\n            slot.is_some()\n        };\n\n        if has_value {\n            self.shared.notify.notify_one();\n        }\n        Ok(())",
   "        let mut pending = self.shared.slot.lock().unwrap();\n        f(&mut pending);\n        let wake = pending.is_some();\n        drop(pending);\n\n        if wake {\n            self.shared.notify.notify_one();\n        }\n        Ok(())",
   "Sender::modify: the block that scopes the lock guard replaced by an explicit drop of the guard; locals renamed"),
 "C02-h2": ("scylla/src/network/connection.rs",
   "        let block_id = stream_id as usize / 64;\n        let off = stream_id as usize % 64;\n        self.used_bitmap[block_id] &= !(1 << off);",
   "        let word = stream_id as usize / 64;\n        let bit = stream_id as usize % 64;\n        self.used_bitmap[word] &= !(1 << bit);",
   "StreamIdSet::free: the two locals renamed, nothing else"),
 "C11-h2": ("scylla/src/routing/sharding.rs",
   "        let mut biased_token = (token.value as u64).wrapping_add(1u64 << 63);\n        biased_token <<= self.msb_ignore;\n        (((biased_token as u128) * (self.nr_shards.get() as u128)) >> 64) as Shard",
   "        let mut biased = (token.value as u64).wrapping_add(1u64 << 63);\n        biased <<= self.msb_ignore;\n        (((biased as u128) * (self.nr_shards.get() as u128)) >> 64) as Shard",
   "shard_of: the local renamed, nothing else"),
}
def main():
    for name, (f, old, new, note) in EDITS.items():
        src = open(os.path.join("/repo", f)).read()
        assert src.count(old) == 1, (name, src.count(old))
        d = f"/verif/harmless/{name}"
        os.makedirs(d, exist_ok=True)
        a = f"/var/tmp/hm/a/{f}"; b = f"/var/tmp/hm/b/{f}"
        for x in (a, b):
            os.makedirs(os.path.dirname(x), exist_ok=True)
        open(a, "w").write(src); open(b, "w").write(src.replace(old, new))
        p = subprocess.run(["diff", "-u", "--label", "a/" + f, "--label", "b/" + f, a, b], capture_output=True, text=True)
        open(os.path.join(d, "patch.diff"), "w").write(p.stdout)
        mp = os.path.join(d, "meta.json")
        meta = json.load(open(mp)) if os.path.exists(mp) else {"detection": {}}
        meta.update({"property": name.split("-")[0], "kind": "behaviour-preserving edit", "what": note})
        json.dump(meta, open(mp, "w"), indent=1)
    shutil.rmtree("/var/tmp/hm", ignore_errors=True)
main()
