pub fn set_value(self, contents: &[u8]) -> Result<WrittenCellProof<'buf>, CellOverflowError> {
        let value_len: i32 = contents.len().try_into().map_err(|_| CellOverflowError)?;
        if self.write_size {
            self.buf.extend_from_slice(&value_len.to_be_bytes());
        }
        self.buf.extend_from_slice(contents);
        Ok(WrittenCellProof::new())
    }