pub fn make_cell_writer(&mut self) -> CellWriter<'_> {
        self.value_count += 1;
        CellWriter::new(self.buf)
    }