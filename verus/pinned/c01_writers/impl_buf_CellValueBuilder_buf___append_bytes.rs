pub fn append_bytes(&mut self, bytes: &[u8]) {
        self.buf.extend_from_slice(bytes);
    }