pub fn value_count(&self) -> usize {
        self.value_count
    }