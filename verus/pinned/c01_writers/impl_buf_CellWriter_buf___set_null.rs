pub fn set_null(self) -> WrittenCellProof<'buf> {
        self.buf.extend_from_slice(&(-1i32).to_be_bytes());
        WrittenCellProof::new()
    }