pub fn new(buf: &'buf mut Vec<u8>) -> Self {
        Self {
            buf,
            value_count: 0,
        }
    }