pub fn set_unset(self) -> WrittenCellProof<'buf> {
        self.buf.extend_from_slice(&(-2i32).to_be_bytes());
        WrittenCellProof::new()
    }