pub fn new(buf: &'buf mut Vec<u8>) -> Self {
        Self {
            buf,
            write_size: true,
        }
    }