pub fn make_sub_writer_without_size(&mut self) -> CellWriter<'_> {
        CellWriter::new_without_size(self.buf)
    }