fn new() -> Self {
        WrittenCellProof {
            _phantom: std::marker::PhantomData,
        }
    }