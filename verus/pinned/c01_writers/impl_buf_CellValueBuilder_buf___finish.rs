pub fn finish(self) -> Result<WrittenCellProof<'buf>, CellOverflowError> {
        if self.write_size {
            let value_len: i32 = (self.buf.len() - self.starting_pos - 4)
                .try_into()
                .map_err(|_| CellOverflowError)?;
            self.buf[self.starting_pos..self.starting_pos + 4]
                .copy_from_slice(&value_len.to_be_bytes());
        }
        Ok(WrittenCellProof::new())
    }