pub fn new_without_size(buf: &'buf mut Vec<u8>) -> Self {
        Self {
            buf,
            write_size: false,
        }
    }