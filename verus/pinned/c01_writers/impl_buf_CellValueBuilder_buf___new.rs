fn new(buf: &'buf mut Vec<u8>, write_size: bool) -> Self {
        // "Length" of a [bytes] frame can either be a non-negative i32,
        // -1 (null) or -2 (not set). Push an invalid value here. It will be
        // overwritten eventually either by set_null, set_unset or Drop.
        // If the CellSerializer is not dropped as it should, this will trigger
        // an error on the DB side and the serialized data
        // won't be misinterpreted.
        let starting_pos = buf.len();
        if write_size {
            buf.extend_from_slice(&(-3i32).to_be_bytes());
        }
        Self {
            buf,
            starting_pos,
            write_size,
        }
    }