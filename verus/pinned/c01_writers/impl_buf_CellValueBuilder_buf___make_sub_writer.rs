pub fn make_sub_writer(&mut self) -> CellWriter<'_> {
        CellWriter::new(self.buf)
    }