pub fn into_value_builder(self) -> CellValueBuilder<'buf> {
        CellValueBuilder::new(self.buf, self.write_size)
    }