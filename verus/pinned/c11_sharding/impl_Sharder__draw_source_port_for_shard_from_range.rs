pub(crate) fn draw_source_port_for_shard_from_range(
        &self,
        shard: Shard,
        port_range: &ShardAwarePortRange,
    ) -> Option<u16> {
        assert!(shard < self.nr_shards.get() as u32);
        // Correct because of the above assert.
        let shard: u16 = shard as u16;

        let (_range_start, range_end) = (*port_range.0.start(), *port_range.0.end());

        let first_valid_port = self.calculate_lowest_port_for_shard_in_range(shard, port_range)?;
        let mut valid_ports = (first_valid_port..=range_end).step_by(self.nr_shards.get().into());
        let valid_ports_count = <_ as ExactSizeIterator>::len(&valid_ports);
        // `first_valid_port` is lower or equal to `range_end`, so `(first_valid_port..=range_end)`
        // is a non-empty range. `step_by` always returns first element of the iterator at least,
        // so the `valid_ports` iterator is non empty, so `valid_ports_count` is greater than 0.
        assert!(valid_ports_count > 0);
        // `valid_ports_count` is greater than 0, so `0..valid_ports_count` is non-empty,
        // so `random_range` won't panic.
        let port_index = rand::rng().random_range(0..valid_ports_count);
        let port = valid_ports.nth(port_index).unwrap();
        Some(port)
    }