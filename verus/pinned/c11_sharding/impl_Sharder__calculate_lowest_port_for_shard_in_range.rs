fn calculate_lowest_port_for_shard_in_range(
        &self,
        shard: u16,
        port_range: &ShardAwarePortRange,
    ) -> Option<u16> {
        let (range_start, range_end) = (*port_range.0.start(), *port_range.0.end());
        let nr_shards = self.nr_shards.get();

        // Calculate how much we need to add to range_start to reach a port assigned to `shard`.
        let shard_for_first_port = range_start % nr_shards;
        // `as u16` is lossless, because the last operation is `% nr_shards` which is originally a u16.
        let offset = ((u32::from(nr_shards) - u32::from(shard_for_first_port) + u32::from(shard))
            % u32::from(nr_shards)) as u16;

        let first_valid_port = range_start.checked_add(offset)?;
        (first_valid_port <= range_end).then_some(first_valid_port)
    }