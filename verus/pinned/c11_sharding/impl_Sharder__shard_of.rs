pub fn shard_of(&self, token: Token) -> Shard {
        let mut biased_token = (token.value as u64).wrapping_add(1u64 << 63);
        biased_token <<= self.msb_ignore;
        (((biased_token as u128) * (self.nr_shards.get() as u128)) >> 64) as Shard
    }