pub fn shard_of_source_port(&self, source_port: u16) -> Shard {
        (source_port % self.nr_shards.get()) as Shard
    }