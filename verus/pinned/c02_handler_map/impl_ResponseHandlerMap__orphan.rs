fn orphan(&mut self, request_id: RequestId) {
        if let Some(stream_id) = self.request_to_stream.get(&request_id) {
            debug!(
                "Orphaning stream_id = {} associated with request_id = {}",
                stream_id, request_id
            );
            self.orphanage_tracker.insert(*stream_id);
            self.handlers.remove(stream_id);
            self.request_to_stream.remove(&request_id);
        }
    }