fn new() -> Self {
        Self {
            orphans: HashMap::new(),
            by_orphaning_times: BTreeSet::new(),
        }
    }