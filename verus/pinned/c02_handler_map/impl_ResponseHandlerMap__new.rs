fn new() -> Self {
        Self {
            stream_set: StreamIdSet::new(),
            handlers: HashMap::new(),
            request_to_stream: HashMap::new(),
            orphanage_tracker: OrphanageTracker::new(),
        }
    }