fn allocate(&mut self) -> Option<i16> {
        for (block_id, block) in self.used_bitmap.iter_mut().enumerate() {
            if *block != !0 {
                let off = block.trailing_ones();
                *block |= 1u64 << off;
                let stream_id = off as i16 + block_id as i16 * 64;
                return Some(stream_id);
            }
        }
        None
    }