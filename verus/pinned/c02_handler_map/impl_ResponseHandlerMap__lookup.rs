fn lookup(&mut self, stream_id: i16) -> HandlerLookupResult {
        self.stream_set.free(stream_id);

        if self.orphanage_tracker.contains(stream_id) {
            self.orphanage_tracker.remove(stream_id);
            // This `stream_id` had been orphaned, so its handler got removed.
            // This is a valid state (as opposed to missing handler)
            return HandlerLookupResult::Orphaned;
        }

        if let Some(handler) = self.handlers.remove(&stream_id) {
            // A mapping `request_id` -> `stream_id` must be removed, to
            // prevent marking this `stream_id` as orphaned by some late
            // orphan notification.
            self.request_to_stream.remove(&handler.request_id);

            HandlerLookupResult::Handler(handler)
        } else {
            HandlerLookupResult::Missing
        }
    }