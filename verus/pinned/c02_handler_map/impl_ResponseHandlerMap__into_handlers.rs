fn into_handlers(self) -> HashMap<i16, ResponseHandler> {
        self.handlers
    }