fn contains(&self, stream_id: i16) -> bool {
        self.orphans.contains_key(&stream_id)
    }