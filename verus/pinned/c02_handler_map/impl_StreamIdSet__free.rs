fn free(&mut self, stream_id: i16) {
        let block_id = stream_id as usize / 64;
        let off = stream_id as usize % 64;
        self.used_bitmap[block_id] &= !(1 << off);
    }