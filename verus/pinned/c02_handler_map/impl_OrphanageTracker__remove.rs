fn remove(&mut self, stream_id: i16) {
        if let Some(time) = self.orphans.remove(&stream_id) {
            self.by_orphaning_times.remove(&(time, stream_id));
        }
    }