fn new() -> Self {
        const BITMAP_SIZE: usize = (i16::MAX as usize + 1) / 64;
        Self {
            used_bitmap: vec![0; BITMAP_SIZE].into_boxed_slice(),
        }
    }