fn allocate(&mut self, response_handler: ResponseHandler) -> Result<i16, ResponseHandler> {
        if let Some(stream_id) = self.stream_set.allocate() {
            self.request_to_stream
                .insert(response_handler.request_id, stream_id);
            let prev_handler = self.handlers.insert(stream_id, response_handler);
            assert!(prev_handler.is_none());

            Ok(stream_id)
        } else {
            Err(response_handler)
        }
    }