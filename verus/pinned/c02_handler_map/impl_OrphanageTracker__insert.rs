fn insert(&mut self, stream_id: i16) {
        let now = Instant::now();
        self.orphans.insert(stream_id, now);
        self.by_orphaning_times.insert((now, stream_id));
    }