pub(crate) fn new(
        keyspace_name: String,
        case_sensitive: bool,
    ) -> Result<Self, BadKeyspaceName> {
        Self::verify_keyspace_name_is_valid(&keyspace_name)?;

        Ok(VerifiedKeyspaceName {
            name: Arc::new(keyspace_name),
            is_case_sensitive: case_sensitive,
        })
    }