fn verify_keyspace_name_is_valid(keyspace_name: &str) -> Result<(), BadKeyspaceName> {
        if keyspace_name.is_empty() {
            return Err(BadKeyspaceName::Empty);
        }

        // Verify that length <= 48
        let keyspace_name_len: usize = keyspace_name.chars().count(); // Only ascii allowed so it's equal to .len()
        if keyspace_name_len > 48 {
            return Err(BadKeyspaceName::TooLong(
                keyspace_name.to_string(),
                keyspace_name_len,
            ));
        }

        // Verify all chars are alphanumeric or underscore
        for character in keyspace_name.chars() {
            match character {
                'a'..='z' | 'A'..='Z' | '0'..='9' | '_' => {}
                _ => {
                    return Err(BadKeyspaceName::IllegalCharacter(
                        keyspace_name.to_string(),
                        character,
                    ));
                }
            };
        }

        Ok(())
    }