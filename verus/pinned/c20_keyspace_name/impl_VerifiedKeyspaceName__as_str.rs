pub(crate) fn as_str(&self) -> &str {
        self.name.as_str()
    }