fn add_tablet(&mut self, tablet: Tablet) {
        if tablet.failed.is_some() {
            self.has_unknown_replicas = true;
        }
        // Smallest `left_idx` for which `tablet.first_token` is LESS OR EQUAL to `tablet_list[left_idx].last_token`.
        // It implies that `tablet_list[left_idx]` overlaps with `tablet` iff `tablet.last_token`
        // is GREATER OR EQUAL to `tablet_list[left_idx].first_token`.
        let left_idx = self
            .tablet_list
            .partition_point(|t| t.last_token < tablet.first_token);
        // Smallest `right_idx` for which `tablet.last_token` is LESS than `tablet_list[right_idx].first_token`.
        // It means that `right_idx` is the index of first tablet that is "to the right" of `tablet` and doesn't overlap with it.
        // From this it follows that if `tablet_list[left_idx]` turns out to not overlap with `tablet`, then `left_idx == right_idx`
        // and we won't remove any tablets because `tablet` doesn't overlap with any existing tablets.
        let right_idx = self
            .tablet_list
            .partition_point(|t| t.first_token <= tablet.last_token);
        self.tablet_list.drain(left_idx..right_idx);
        self.tablet_list.insert(left_idx, tablet);
    }