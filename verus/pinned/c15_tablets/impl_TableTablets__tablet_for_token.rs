fn tablet_for_token(&self, token: Token) -> Option<&Tablet> {
        let idx = self
            .tablet_list
            .partition_point(|tablet| tablet.last_token < token);
        let tablet = self.tablet_list.get(idx);
        tablet.filter(|t| t.first_token <= token)
    }