fn write(&mut self, mut pk_part: &[u8]) {
        let mut buf_len = self.total_len % Self::BUF_CAPACITY;
        self.total_len += pk_part.len();

        // If the buffer is nonempty and can be filled completely, so that we can fetch two i64s from it,
        // fill it and hash its contents, then make it empty.
        if buf_len > 0 && Self::BUF_CAPACITY - buf_len <= pk_part.len() {
            // First phase: populate buffer until full, then consume two i64s.
            let to_write = Ord::min(Self::BUF_CAPACITY - buf_len, pk_part.len());
            self.buf[buf_len..buf_len + to_write].copy_from_slice(&pk_part[..to_write]);
            pk_part.advance(to_write);
            buf_len += to_write;

            debug_assert_eq!(buf_len, Self::BUF_CAPACITY);
            // consume 16 bytes from internal buf
            let mut buf_ptr = &self.buf[..];
            let (k1, k2) = Self::fetch_16_bytes_from_buf(&mut buf_ptr);
            debug_assert!(buf_ptr.is_empty());
            self.hash_16_bytes(k1, k2);
            buf_len = 0;
        }

        // If there were enough data, now we have an empty buffer. Further data, if enough, can be hence
        // hashed directly from the external buffer.
        if buf_len == 0 {
            // Second phase: fast path for big values.
            while pk_part.len() >= Self::BUF_CAPACITY {
                let (k1, k2) = Self::fetch_16_bytes_from_buf(&mut pk_part);
                self.hash_16_bytes(k1, k2);
            }
        }

        // Third phase: move remaining bytes to the buffer.
        debug_assert!(pk_part.len() < Self::BUF_CAPACITY - buf_len);
        let to_write = pk_part.len();
        self.buf[buf_len..buf_len + to_write].copy_from_slice(&pk_part[..to_write]);
        pk_part.advance(to_write);
        buf_len += to_write;
        debug_assert!(pk_part.is_empty());

        debug_assert!(buf_len < Self::BUF_CAPACITY);
    }