fn build_hasher(&self) -> Self::Hasher {
        Self::Hasher {
            total_len: 0,
            buf: Default::default(),
            h1: Wrapping(0),
            h2: Wrapping(0),
        }
    }