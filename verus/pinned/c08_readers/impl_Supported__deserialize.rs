pub fn deserialize(buf: &mut &[u8]) -> Result<Self, CqlSupportedParseError> {
        let options = types::read_string_multimap(buf)
            .map_err(CqlSupportedParseError::OptionsMapDeserialization)?;

        Ok(Supported { options })
    }