pub fn read_long_string<'a>(buf: &mut &'a [u8]) -> Result<&'a str, LowLevelDeserializationError> {
    let len = read_int_length(buf)?;
    let raw = read_raw_bytes(len, buf)?;
    let v = str::from_utf8(raw)?;
    Ok(v)
}