fn deser_type_borrowed<'frame>(
    buf: &mut &'frame [u8],
) -> StdResult<ColumnType<'frame>, CqlTypeParseError> {
    deser_type_generic(
        buf,
        |buf| types::read_string(buf),
        CustomTypeParser::parse,
        0,
    )
}