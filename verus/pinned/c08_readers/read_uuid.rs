pub fn read_uuid(buf: &mut &[u8]) -> Result<Uuid, LowLevelDeserializationError> {
    let raw = read_raw_bytes(16, buf)?;

    // It's safe to unwrap here because the conversion only fails
    // if the argument slice's length does not match, which
    // `read_raw_bytes` prevents.
    let raw_array: &[u8; 16] = raw.try_into().unwrap();

    Ok(Uuid::from_bytes(*raw_array))
}