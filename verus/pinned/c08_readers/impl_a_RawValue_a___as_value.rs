pub fn as_value(&self) -> Option<&'a [u8]> {
        match self {
            RawValue::Value(v) => Some(v),
            RawValue::Null | RawValue::Unset => None,
        }
    }