pub fn read_short(buf: &mut &[u8]) -> Result<u16, std::io::Error> {
    let v = buf.read_u16::<BigEndian>()?;
    Ok(v)
}