pub fn read_string_map(
    buf: &mut &[u8],
) -> Result<HashMap<String, String>, LowLevelDeserializationError> {
    let len = read_short_length(buf)?;
    let mut v = HashMap::with_capacity(len);
    for _ in 0..len {
        let key = read_string(buf)?.to_owned();
        let val = read_string(buf)?.to_owned();
        v.insert(key, val);
    }
    Ok(v)
}