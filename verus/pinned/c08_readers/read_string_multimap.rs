pub fn read_string_multimap(
    buf: &mut &[u8],
) -> Result<HashMap<String, Vec<String>>, LowLevelDeserializationError> {
    let len = read_short_length(buf)?;
    let mut v = HashMap::with_capacity(len);
    for _ in 0..len {
        let key = read_string(buf)?.to_owned();
        let val = read_string_list(buf)?;
        v.insert(key, val);
    }
    Ok(v)
}