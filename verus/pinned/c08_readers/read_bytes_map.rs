pub fn read_bytes_map(
    buf: &mut &[u8],
) -> Result<HashMap<String, Bytes>, LowLevelDeserializationError> {
    let len = read_short_length(buf)?;
    let mut v = HashMap::with_capacity(len);
    for _ in 0..len {
        let key = read_string(buf)?.to_owned();
        let val = Bytes::copy_from_slice(read_bytes(buf)?);
        v.insert(key, val);
    }
    Ok(v)
}