pub fn read_string_list(buf: &mut &[u8]) -> Result<Vec<String>, LowLevelDeserializationError> {
    let len = read_short_length(buf)?;
    let mut v = Vec::with_capacity(len);
    for _ in 0..len {
        v.push(read_string(buf)?.to_owned());
    }
    Ok(v)
}