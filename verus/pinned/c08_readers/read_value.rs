pub fn read_value<'a>(buf: &mut &'a [u8]) -> Result<RawValue<'a>, LowLevelDeserializationError> {
    let len = read_int(buf)?;
    match len {
        -2 => Ok(RawValue::Unset),
        -1 => Ok(RawValue::Null),
        len if len >= 0 => {
            let v = read_raw_bytes(len as usize, buf)?;
            Ok(RawValue::Value(v))
        }
        len => Err(LowLevelDeserializationError::InvalidValueLength(len)),
    }
}