pub fn read_long(buf: &mut &[u8]) -> Result<i64, std::io::Error> {
    let v = buf.read_i64::<BigEndian>()?;
    Ok(v)
}