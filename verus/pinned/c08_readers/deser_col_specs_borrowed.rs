fn deser_col_specs_borrowed<'frame>(
    buf: &mut &'frame [u8],
    global_table_spec: Option<TableSpec<'frame>>,
    col_count: usize,
) -> StdResult<Vec<ColumnSpec<'frame>>, ColumnSpecParseError> {
    deser_col_specs_generic(
        buf,
        global_table_spec,
        col_count,
        ColumnSpec::borrowed,
        deser_type_borrowed,
    )
}