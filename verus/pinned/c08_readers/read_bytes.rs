pub fn read_bytes<'a>(buf: &mut &'a [u8]) -> Result<&'a [u8], LowLevelDeserializationError> {
    let len = read_int_length(buf)?;
    let v = read_raw_bytes(len, buf)?;
    Ok(v)
}