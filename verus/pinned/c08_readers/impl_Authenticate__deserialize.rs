pub fn deserialize(buf: &mut &[u8]) -> Result<Self, CqlAuthenticateParseError> {
        let authenticator_name = types::read_string(buf)
            .map_err(CqlAuthenticateParseError::AuthNameParseError)?
            .to_string();

        Ok(Authenticate { authenticator_name })
    }