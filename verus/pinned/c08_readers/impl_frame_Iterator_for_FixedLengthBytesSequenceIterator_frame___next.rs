fn next(&mut self) -> Option<Self::Item> {
        self.remaining = self.remaining.checked_sub(1)?;
        Some(self.slice.read_cql_bytes())
    }