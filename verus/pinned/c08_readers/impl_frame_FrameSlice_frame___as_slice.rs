pub fn as_slice(&self) -> &'frame [u8] {
        self.frame_subslice
    }