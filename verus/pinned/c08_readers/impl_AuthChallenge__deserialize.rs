pub fn deserialize(buf: &mut &[u8]) -> Result<Self, CqlAuthChallengeParseError> {
        let authenticate_message = types::read_bytes_opt(buf)
            .map_err(CqlAuthChallengeParseError::AuthMessageParseError)?
            .map(|b| b.to_owned());

        Ok(AuthChallenge {
            authenticate_message,
        })
    }