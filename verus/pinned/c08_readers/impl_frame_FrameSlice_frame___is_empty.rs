pub fn is_empty(&self) -> bool {
        self.frame_subslice.is_empty()
    }