pub fn read_int(buf: &mut &[u8]) -> Result<i32, std::io::Error> {
    let v = buf.read_i32::<BigEndian>()?;
    Ok(v)
}