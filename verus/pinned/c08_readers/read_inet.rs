pub fn read_inet(buf: &mut &[u8]) -> Result<SocketAddr, LowLevelDeserializationError> {
    let len = buf.read_u8()?;
    let ip_addr = match len {
        4 => {
            let ip_bytes = read_raw_bytes(4, buf)?;
            IpAddr::from(<[u8; 4]>::try_from(ip_bytes)?)
        }
        16 => {
            let ip_bytes = read_raw_bytes(16, buf)?;
            IpAddr::from(<[u8; 16]>::try_from(ip_bytes)?)
        }
        v => return Err(LowLevelDeserializationError::InvalidInetLength(v)),
    };
    let port_int = read_int(buf)?;
    let port = <i32 as TryInto<u16>>::try_into(port_int)
        .map_err(LowLevelDeserializationError::TryFromIntError)?;

    Ok(SocketAddr::new(ip_addr, port))
}