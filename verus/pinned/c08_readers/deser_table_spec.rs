fn deser_table_spec<'frame>(
    buf: &mut &'frame [u8],
) -> StdResult<TableSpec<'frame>, TableSpecParseError> {
    let ks_name = types::read_string(buf).map_err(TableSpecParseError::MalformedKeyspaceName)?;
    let table_name = types::read_string(buf).map_err(TableSpecParseError::MalformedTableName)?;
    Ok(TableSpec::borrowed(ks_name, table_name))
}