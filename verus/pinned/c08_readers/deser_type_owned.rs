fn deser_type_owned(buf: &mut &[u8]) -> StdResult<ColumnType<'static>, CqlTypeParseError> {
    deser_type_generic(
        buf,
        |buf| types::read_string(buf).map(ToOwned::to_owned),
        |type_str| CustomTypeParser::parse(type_str).map(|t| t.into_owned()),
        0,
    )
}