fn deser_prepared_metadata(
    buf: &mut &[u8],
) -> StdResult<PreparedMetadata, PreparedMetadataParseError> {
    let flags = types::read_int(buf)
        .map_err(|err| PreparedMetadataParseError::FlagsParseError(err.into()))?;
    let global_tables_spec = flags & 0x0001 != 0;

    let col_count =
        types::read_int_length(buf).map_err(PreparedMetadataParseError::ColumnCountParseError)?;

    let pk_count: usize =
        types::read_int_length(buf).map_err(PreparedMetadataParseError::PkCountParseError)?;

    // The count comes from the wire: do not reserve more than the remaining bytes can fill.
    let mut pk_indexes = Vec::with_capacity(pk_count.min(buf.len()));
    for i in 0..pk_count {
        pk_indexes.push(PartitionKeyIndex {
            index: types::read_short(buf)
                .map_err(|err| PreparedMetadataParseError::PkIndexParseError(err.into()))?,
            sequence: i as u16,
        });
    }
    pk_indexes.sort_unstable_by_key(|pki| pki.index);

    let global_table_spec = global_tables_spec
        .then(|| deser_table_spec(buf))
        .transpose()?;

    let col_specs = deser_col_specs_owned(buf, global_table_spec, col_count)?;

    Ok(PreparedMetadata {
        flags,
        col_count,
        pk_indexes,
        col_specs,
    })
}