fn deser_col_specs_owned<'frame>(
    buf: &mut &'frame [u8],
    global_table_spec: Option<TableSpec<'frame>>,
    col_count: usize,
) -> StdResult<Vec<ColumnSpec<'static>>, ColumnSpecParseError> {
    let result: StdResult<Vec<ColumnSpec<'static>>, ColumnSpecParseError> = deser_col_specs_generic(
        buf,
        global_table_spec,
        col_count,
        |name: &str, typ, table_spec: TableSpec| {
            ColumnSpec::owned(name.to_owned(), typ, table_spec.into_owned())
        },
        deser_type_owned,
    );

    result
}