pub fn read_bytes_opt<'a>(
    buf: &mut &'a [u8],
) -> Result<Option<&'a [u8]>, LowLevelDeserializationError> {
    let len = read_int(buf)?;
    if len < 0 {
        return Ok(None);
    }
    let len = len as usize;
    let v = Some(read_raw_bytes(len, buf)?);
    Ok(v)
}