pub fn parse_response_body_extensions(
    flags: u8,
    compression: Option<Compression>,
    mut body: Bytes,
) -> Result<ResponseBodyWithExtensions, FrameBodyExtensionsParseError> {
    if flags & flag::COMPRESSION != 0 {
        if let Some(compression) = compression {
            body = decompress(&body, compression)?.into();
        } else {
            return Err(FrameBodyExtensionsParseError::NoCompressionNegotiated);
        }
    }

    let trace_id = if flags & flag::TRACING != 0 {
        let buf = &mut &*body;
        let trace_id =
            types::read_uuid(buf).map_err(FrameBodyExtensionsParseError::TraceIdParse)?;
        body.advance(16);
        Some(trace_id)
    } else {
        None
    };

    let warnings = if flags & flag::WARNING != 0 {
        let body_len = body.len();
        let buf = &mut &*body;
        let warnings = types::read_string_list(buf)
            .map_err(FrameBodyExtensionsParseError::WarningsListParse)?;
        let buf_len = buf.len();
        body.advance(body_len - buf_len);
        warnings
    } else {
        Vec::new()
    };

    let custom_payload = if flags & flag::CUSTOM_PAYLOAD != 0 {
        let body_len = body.len();
        let buf = &mut &*body;
        let payload_map = types::read_bytes_map(buf)
            .map_err(FrameBodyExtensionsParseError::CustomPayloadMapParse)?;
        let buf_len = buf.len();
        body.advance(body_len - buf_len);
        Some(payload_map)
    } else {
        None
    };

    Ok(ResponseBodyWithExtensions {
        trace_id,
        warnings,
        custom_payload,
        body,
    })
}