pub fn read_cql_bytes(
        &mut self,
    ) -> Result<Option<FrameSlice<'frame>>, LowLevelDeserializationError> {
        // We copy the slice reference, not to mutate the FrameSlice in case of an error.
        let mut slice = self.frame_subslice;

        let cql_bytes = types::read_bytes_opt(&mut slice)?;

        // `read_bytes_opt` hasn't failed, so now we must update the FrameSlice.
        self.frame_subslice = slice;

        Ok(cql_bytes.map(|slice| Self {
            frame_subslice: slice,
            original_frame: self.original_frame,
        }))
    }