pub fn read_int_length(buf: &mut &[u8]) -> Result<usize, LowLevelDeserializationError> {
    let v = read_int(buf)?;
    let v: usize = v.try_into()?;

    Ok(v)
}