pub fn read_n_bytes(
        &mut self,
        count: usize,
    ) -> Result<Option<FrameSlice<'frame>>, LowLevelDeserializationError> {
        if self.is_empty() {
            return Ok(None);
        }

        // We copy the slice reference, not to mutate the FrameSlice in case of an error.
        let mut slice = self.frame_subslice;

        let cql_bytes = types::read_raw_bytes(count, &mut slice)?;

        // `read_raw_bytes` hasn't failed, so now we must update the FrameSlice.
        self.frame_subslice = slice;

        Ok(Some(Self {
            frame_subslice: cql_bytes,
            original_frame: self.original_frame,
        }))
    }