pub fn deserialize(buf: &mut &[u8]) -> Result<Self, CqlAuthSuccessParseError> {
        let success_message = types::read_bytes_opt(buf)
            .map_err(CqlAuthSuccessParseError::SuccessMessageParseError)?
            .map(ToOwned::to_owned);

        Ok(AuthSuccess { success_message })
    }