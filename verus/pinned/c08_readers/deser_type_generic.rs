fn deser_type_generic<'frame, 'result, StrT: Into<Cow<'result, str>>>(
    buf: &mut &'frame [u8],
    read_string: fn(&mut &'frame [u8]) -> StdResult<StrT, LowLevelDeserializationError>,
    read_custom_type: fn(&'frame str) -> StdResult<ColumnType<'result>, CustomTypeParseError>,
    depth: usize,
) -> StdResult<ColumnType<'result>, CqlTypeParseError> {
    use ColumnType::*;
    use NativeType::*;
    if depth > MAX_TYPE_NESTING_DEPTH {
        return Err(CqlTypeParseError::TypeNestingTooDeep(
            MAX_TYPE_NESTING_DEPTH,
        ));
    }
    let id =
        types::read_short(buf).map_err(|err| CqlTypeParseError::TypeIdParseError(err.into()))?;
    Ok(match id {
        0x0000 => {
            let type_str: &'frame str =
                types::read_string(buf).map_err(CqlTypeParseError::CustomTypeNameParseError)?;
            read_custom_type(type_str).map_err(CqlTypeParseError::CustomTypeParseError)?
        }
        0x0001 => Native(Ascii),
        0x0002 => Native(BigInt),
        0x0003 => Native(Blob),
        0x0004 => Native(Boolean),
        0x0005 => Native(Counter),
        0x0006 => Native(Decimal),
        0x0007 => Native(Double),
        0x0008 => Native(Float),
        0x0009 => Native(Int),
        0x000B => Native(Timestamp),
        0x000C => Native(Uuid),
        0x000D => Native(Text),
        0x000E => Native(Varint),
        0x000F => Native(Timeuuid),
        0x0010 => Native(Inet),
        0x0011 => Native(Date),
        0x0012 => Native(Time),
        0x0013 => Native(SmallInt),
        0x0014 => Native(TinyInt),
        0x0015 => Native(Duration),
        0x0020 => Collection {
            frozen: false,
            typ: CollectionType::List(Box::new(deser_type_generic(
                buf,
                read_string,
                read_custom_type,
                depth + 1,
            )?)),
        },
        0x0021 => Collection {
            frozen: false,
            typ: CollectionType::Map(
                Box::new(deser_type_generic(
                    buf,
                    read_string,
                    read_custom_type,
                    depth + 1,
                )?),
                Box::new(deser_type_generic(
                    buf,
                    read_string,
                    read_custom_type,
                    depth + 1,
                )?),
            ),
        },
        0x0022 => Collection {
            frozen: false,
            typ: CollectionType::Set(Box::new(deser_type_generic(
                buf,
                read_string,
                read_custom_type,
                depth + 1,
            )?)),
        },
        0x0030 => {
            let keyspace_name =
                read_string(buf).map_err(CqlTypeParseError::UdtKeyspaceNameParseError)?;
            let type_name = read_string(buf).map_err(CqlTypeParseError::UdtNameParseError)?;
            let fields_size: usize = types::read_short(buf)
                .map_err(|err| CqlTypeParseError::UdtFieldsCountParseError(err.into()))?
                .into();

            // The count comes from the wire: do not reserve more than the remaining bytes can fill.
            let mut field_types: Vec<(Cow<'result, str>, ColumnType)> =
                Vec::with_capacity(fields_size.min(buf.len()));

            for _ in 0..fields_size {
                let field_name =
                    read_string(buf).map_err(CqlTypeParseError::UdtFieldNameParseError)?;
                let field_type = deser_type_generic(buf, read_string, read_custom_type, depth + 1)?;

                field_types.push((field_name.into(), field_type));
            }

            UserDefinedType {
                frozen: false,
                definition: Arc::new(self::UserDefinedType {
                    name: type_name.into(),
                    keyspace: keyspace_name.into(),
                    field_types,
                }),
            }
        }
        0x0031 => {
            let len: usize = types::read_short(buf)
                .map_err(|err| CqlTypeParseError::TupleLengthParseError(err.into()))?
                .into();
            // The count comes from the wire: do not reserve more than the remaining bytes can fill.
            let mut types = Vec::with_capacity(len.min(buf.len()));
            for _ in 0..len {
                types.push(deser_type_generic(
                    buf,
                    read_string,
                    read_custom_type,
                    depth + 1,
                )?);
            }
            Tuple(types)
        }
        id => {
            return Err(CqlTypeParseError::TypeNotImplemented(id));
        }
    })
}