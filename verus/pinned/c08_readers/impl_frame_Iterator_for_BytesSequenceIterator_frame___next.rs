fn next(&mut self) -> Option<Self::Item> {
        if self.slice.as_slice().is_empty() {
            None
        } else {
            Some(self.slice.read_cql_bytes())
        }
    }