fn next(&mut self) -> Option<Self::Item> {
        self.remaining = self.remaining.checked_sub(1)?;

        let iter = ColumnIterator::new(self.specs, self.slice);

        // Skip the row here, manually
        for (column_index, spec) in self.specs.iter().enumerate() {
            if let Err(err) = self.slice.read_cql_bytes() {
                return Some(Err(mk_deser_err::<Self>(
                    BuiltinDeserializationErrorKind::RawColumnDeserializationFailed {
                        column_index,
                        column_name: spec.name().to_owned(),
                        err: DeserializationError::new(err),
                    },
                )));
            }
        }

        Some(Ok(iter))
    }