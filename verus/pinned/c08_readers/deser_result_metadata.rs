fn deser_result_metadata(
    buf: &mut &[u8],
    features: &ProtocolFeatures,
) -> StdResult<(ResultMetadata<'static>, PagingStateResponse), ResultMetadataParseError> {
    let flags = types::read_int(buf)
        .map_err(|err| ResultMetadataParseError::FlagsParseError(err.into()))?;
    let global_tables_spec = flags & 0x0001 != 0;
    let has_more_pages = flags & 0x0002 != 0;
    let no_metadata = flags & 0x0004 != 0;
    let metadata_changed = features.scylla_metadata_id_supported && (flags & 0x0008 != 0);

    if metadata_changed && no_metadata {
        return Err(ResultMetadataParseError::IdPresentForEmptyMetadata);
    }

    let col_count =
        types::read_int_length(buf).map_err(ResultMetadataParseError::ColumnCountParseError)?;

    let raw_paging_state = has_more_pages
        .then(|| types::read_bytes(buf).map_err(ResultMetadataParseError::PagingStateParseError))
        .transpose()?;

    let paging_state = PagingStateResponse::new_from_raw_bytes(raw_paging_state);

    let new_metadata_id = metadata_changed
        .then(|| {
            types::read_short_bytes(buf).map_err(ResultMetadataParseError::NewMetadataIdParseError)
        })
        .transpose()?
        .map(|x| cow_bytes::CowBytes::from(x).into_owned());

    let col_specs = if no_metadata {
        vec![]
    } else {
        let global_table_spec = global_tables_spec
            .then(|| deser_table_spec(buf))
            .transpose()?;

        deser_col_specs_owned(buf, global_table_spec, col_count)?
    };

    let metadata = ResultMetadata {
        id: new_metadata_id,
        col_count,
        col_specs,
    };
    Ok((metadata, paging_state))
}