fn deser_set_keyspace(buf: &mut &[u8]) -> StdResult<SetKeyspace, SetKeyspaceParseError> {
    let keyspace_name = types::read_string(buf)?.to_string();

    Ok(SetKeyspace { keyspace_name })
}