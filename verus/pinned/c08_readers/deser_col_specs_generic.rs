fn deser_col_specs_generic<'frame, 'result>(
    buf: &mut &'frame [u8],
    global_table_spec: Option<TableSpec<'frame>>,
    col_count: usize,
    make_col_spec: fn(&'frame str, ColumnType<'result>, TableSpec<'frame>) -> ColumnSpec<'result>,
    deser_type: fn(&mut &'frame [u8]) -> StdResult<ColumnType<'result>, CqlTypeParseError>,
) -> StdResult<Vec<ColumnSpec<'result>>, ColumnSpecParseError> {
    // The count comes from the wire: do not reserve more than the remaining bytes can fill.
    let mut col_specs = Vec::with_capacity(col_count.min(buf.len()));
    for col_idx in 0..col_count {
        let table_spec = match global_table_spec {
            // If global table spec was provided, we simply clone it to each column spec.
            Some(ref known_spec) => known_spec.clone(),

            // Else, we deserialize the table spec for a column.
            None => deser_table_spec(buf).map_err(|err| mk_col_spec_parse_error(col_idx, err))?,
        };

        let name = types::read_string(buf).map_err(|err| mk_col_spec_parse_error(col_idx, err))?;
        let typ = deser_type(buf).map_err(|err| mk_col_spec_parse_error(col_idx, err))?;
        let col_spec = make_col_spec(name, typ, table_spec);
        col_specs.push(col_spec);
    }
    Ok(col_specs)
}