pub fn write_short_bytes(v: &[u8], buf: &mut impl BufMut) -> Result<(), std::num::TryFromIntError> {
    write_short_length(v.len(), buf)?;
    buf.put_slice(v);
    Ok(())
}