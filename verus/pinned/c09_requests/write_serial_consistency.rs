pub fn write_serial_consistency(c: SerialConsistency, buf: &mut impl BufMut) {
    write_short(c as u16, buf);
}