pub fn element_count(&self) -> u16 {
        self.element_count
    }