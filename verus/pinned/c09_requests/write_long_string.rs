pub fn write_long_string(v: &str, buf: &mut impl BufMut) -> Result<(), std::num::TryFromIntError> {
    let raw = v.as_bytes();
    let len = raw.len();
    write_int_length(len, buf)?;
    buf.put_slice(raw);
    Ok(())
}