pub fn write_string_map(
    v: &HashMap<impl AsRef<str>, impl AsRef<str>>,
    buf: &mut impl BufMut,
) -> Result<(), std::num::TryFromIntError> {
    let len = v.len();
    write_short_length(len, buf)?;
    for (key, val) in v.iter() {
        write_string(key.as_ref(), buf)?;
        write_string(val.as_ref(), buf)?;
    }
    Ok(())
}