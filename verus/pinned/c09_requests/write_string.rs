pub fn write_string(v: &str, buf: &mut impl BufMut) -> Result<(), std::num::TryFromIntError> {
    let raw = v.as_bytes();
    write_short_length(v.len(), buf)?;
    buf.put_slice(raw);
    Ok(())
}