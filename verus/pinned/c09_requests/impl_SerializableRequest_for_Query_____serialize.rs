fn serialize(&self, buf: &mut Vec<u8>) -> Result<(), CqlRequestSerializationError> {
        types::write_long_string(&self.contents, buf)
            .map_err(QuerySerializationError::StatementStringSerialization)?;
        self.parameters
            .serialize(buf)
            .map_err(QuerySerializationError::QueryParametersSerialization)?;
        Ok(())
    }