pub(crate) fn write_int_length(
    v: usize,
    buf: &mut impl BufMut,
) -> Result<(), std::num::TryFromIntError> {
    let v: i32 = v.try_into()?;

    write_int(v, buf);
    Ok(())
}