fn serialize(&self, buf: &mut Vec<u8>) -> Result<(), CqlRequestSerializationError> {
        types::write_long_string(self.query, buf)
            .map_err(PrepareSerializationError::StatementStringSerialization)?;
        Ok(())
    }