pub(crate) fn write_short_length(
    v: usize,
    buf: &mut impl BufMut,
) -> Result<(), std::num::TryFromIntError> {
    let v: u16 = v.try_into()?;
    write_short(v, buf);
    Ok(())
}