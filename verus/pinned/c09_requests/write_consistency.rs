pub fn write_consistency(c: Consistency, buf: &mut impl BufMut) {
    write_short(c as u16, buf);
}