pub fn as_bytes_slice(&self) -> Option<&Arc<[u8]>> {
        self.0.as_ref()
    }