pub fn write_string_list(
    v: &[String],
    buf: &mut impl BufMut,
) -> Result<(), std::num::TryFromIntError> {
    let len = v.len();
    write_short_length(len, buf)?;
    for v in v.iter() {
        write_string(v, buf)?;
    }
    Ok(())
}