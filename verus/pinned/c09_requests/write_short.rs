pub fn write_short(v: u16, buf: &mut impl BufMut) {
    buf.put_u16(v);
}