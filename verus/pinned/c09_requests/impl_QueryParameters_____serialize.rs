pub fn serialize(
        &self,
        buf: &mut impl BufMut,
    ) -> Result<(), QueryParametersSerializationError> {
        types::write_consistency(self.consistency, buf);

        let paging_state_bytes = self.paging_state.as_bytes_slice();

        let mut flags = 0;
        if !self.values.is_empty() {
            flags |= FLAG_VALUES;
        }

        if self.skip_metadata {
            flags |= FLAG_SKIP_METADATA;
        }

        if self.page_size.is_some() {
            flags |= FLAG_PAGE_SIZE;
        }

        if paging_state_bytes.is_some() {
            flags |= FLAG_WITH_PAGING_STATE;
        }

        if self.serial_consistency.is_some() {
            flags |= FLAG_WITH_SERIAL_CONSISTENCY;
        }

        if self.timestamp.is_some() {
            flags |= FLAG_WITH_DEFAULT_TIMESTAMP;
        }

        buf.put_u8(flags);

        if !self.values.is_empty() {
            self.values.write_to_request(buf);
        }

        if let Some(page_size) = self.page_size {
            types::write_int(page_size, buf);
        }

        if let Some(paging_state_bytes) = paging_state_bytes {
            types::write_bytes(paging_state_bytes, buf)?;
        }

        if let Some(serial_consistency) = self.serial_consistency {
            types::write_serial_consistency(serial_consistency, buf);
        }

        if let Some(timestamp) = self.timestamp {
            types::write_long(timestamp, buf);
        }

        Ok(())
    }