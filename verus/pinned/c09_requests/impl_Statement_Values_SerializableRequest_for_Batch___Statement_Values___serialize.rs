fn serialize(&self, buf: &mut Vec<u8>) -> Result<(), CqlRequestSerializationError> {
        self.do_serialize(buf)?;
        Ok(())
    }