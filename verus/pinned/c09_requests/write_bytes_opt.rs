pub fn write_bytes_opt(
    v: Option<impl AsRef<[u8]>>,
    buf: &mut impl BufMut,
) -> Result<(), std::num::TryFromIntError> {
    match v {
        Some(bytes) => {
            write_int_length(bytes.as_ref().len(), buf)?;
            buf.put_slice(bytes.as_ref());
        }
        None => write_int(-1, buf),
    }

    Ok(())
}