pub fn write_to_request(&self, buf: &mut impl BufMut) {
        buf.put_u16(self.element_count);
        buf.put(self.serialized_values.as_slice())
    }