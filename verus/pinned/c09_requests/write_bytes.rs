pub fn write_bytes(v: &[u8], buf: &mut impl BufMut) -> Result<(), std::num::TryFromIntError> {
    write_int_length(v.len(), buf)?;
    buf.put_slice(v);
    Ok(())
}