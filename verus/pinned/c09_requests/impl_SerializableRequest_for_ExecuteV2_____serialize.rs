fn serialize(&self, buf: &mut Vec<u8>) -> Result<(), CqlRequestSerializationError> {
        // Serializing statement id
        types::write_short_bytes(self.id.as_ref(), buf)
            .map_err(ExecuteSerializationError::StatementIdSerialization)?;

        // Serializing result metadata id
        if let Some(id) = self.result_metadata_id.as_ref() {
            types::write_short_bytes(id.as_ref(), buf)
                .map_err(ExecuteSerializationError::ResultMetadataIdSerialization)?;
        }

        // Serializing params
        self.parameters
            .serialize(buf)
            .map_err(ExecuteSerializationError::QueryParametersSerialization)?;
        Ok(())
    }