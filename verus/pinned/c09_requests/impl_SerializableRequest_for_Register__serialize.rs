fn serialize(&self, buf: &mut Vec<u8>) -> Result<(), CqlRequestSerializationError> {
        let event_types_list = self
            .event_types_to_register_for
            .iter()
            .map(|event| event.to_string())
            .collect::<Vec<_>>();

        types::write_string_list(&event_types_list, buf)
            .map_err(RegisterSerializationError::EventTypesSerialization)?;
        Ok(())
    }