fn do_serialize(&self, buf: &mut Vec<u8>) -> Result<(), BatchSerializationError> {
        // Serializing type of batch
        buf.put_u8(self.batch_type as u8);

        // Serializing queries
        types::write_short(
            self.statements
                .len()
                .try_into()
                .map_err(|_| BatchSerializationError::TooManyStatements(self.statements.len()))?,
            buf,
        );

        let counts_mismatch_err = |n_value_lists: usize, n_statements: usize| {
            BatchSerializationError::ValuesAndStatementsLengthMismatch {
                n_value_lists,
                n_statements,
            }
        };
        let mut n_serialized_statements = 0usize;
        let mut value_lists = self.values.batch_values_iter();
        for (idx, statement) in self.statements.iter().enumerate() {
            serialize_batch_statement(&BatchStatement::from(statement), buf).map_err(|err| {
                BatchSerializationError::StatementSerialization {
                    statement_idx: idx,
                    error: err,
                }
            })?;

            // Reserve two bytes for length
            let length_pos = buf.len();
            buf.extend_from_slice(&[0, 0]);
            let mut row_writer = RowWriter::new(buf);
            value_lists
                .serialize_next(&mut row_writer)
                .ok_or_else(|| counts_mismatch_err(idx, self.statements.len()))?
                .map_err(|err: SerializationError| {
                    BatchSerializationError::StatementSerialization {
                        statement_idx: idx,
                        error: BatchStatementSerializationError::ValuesSerialiation(err),
                    }
                })?;
            // Go back and put the length
            let count: u16 = match row_writer.value_count().try_into() {
                Ok(n) => n,
                Err(_) => {
                    return Err(BatchSerializationError::StatementSerialization {
                        statement_idx: idx,
                        error: BatchStatementSerializationError::TooManyValues(
                            row_writer.value_count(),
                        ),
                    });
                }
            };
            buf[length_pos..length_pos + 2].copy_from_slice(&count.to_be_bytes());

            n_serialized_statements += 1;
        }
        // At this point, we have all statements serialized. If any values are still left, we have a mismatch.
        if value_lists.skip_next().is_some() {
            return Err(counts_mismatch_err(
                n_serialized_statements + 1 /*skipped above*/ + value_lists.count(),
                n_serialized_statements,
            ));
        }
        if n_serialized_statements != self.statements.len() {
            // We want to check this to avoid propagating an invalid construction of self.statements_count as a
            // hard-to-debug silent fail
            return Err(BatchSerializationError::BadBatchConstructed {
                n_announced_statements: self.statements.len(),
                n_serialized_statements,
            });
        }

        // Serializing consistency
        types::write_consistency(self.consistency, buf);

        // Serializing flags
        let mut flags = 0;
        if self.serial_consistency.is_some() {
            flags |= FLAG_WITH_SERIAL_CONSISTENCY;
        }
        if self.timestamp.is_some() {
            flags |= FLAG_WITH_DEFAULT_TIMESTAMP;
        }

        buf.put_u8(flags);

        if let Some(serial_consistency) = self.serial_consistency {
            types::write_serial_consistency(serial_consistency, buf);
        }
        if let Some(timestamp) = self.timestamp {
            types::write_long(timestamp, buf);
        }

        Ok(())
    }