pub fn make<R: SerializableRequest>(
        req: &R,
        compression: Option<Compression>,
        tracing: bool,
    ) -> Result<SerializedRequest, CqlRequestSerializationError> {
        let mut flags = 0;
        let mut data = vec![0; HEADER_SIZE];

        if let Some(compression) = compression {
            flags |= flag::COMPRESSION;
            let body = req.to_bytes()?;
            compress_append(&body, compression, &mut data)?;
        } else {
            req.serialize(&mut data)?;
        }

        if tracing {
            flags |= flag::TRACING;
        }

        data[0] = 4; // We only support version 4 for now
        data[1] = flags;
        // Leave space for the stream number
        data[4] = R::OPCODE as u8;

        let req_size = (data.len() - HEADER_SIZE) as u32;
        data[5..9].copy_from_slice(&req_size.to_be_bytes());

        Ok(Self { data })
    }