fn serialize(&self, buf: &mut Vec<u8>) -> Result<(), CqlRequestSerializationError> {
        types::write_string_map(&self.options, buf)
            .map_err(StartupSerializationError::OptionsSerialization)?;
        Ok(())
    }