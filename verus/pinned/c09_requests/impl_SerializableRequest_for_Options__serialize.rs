fn serialize(&self, _buf: &mut Vec<u8>) -> Result<(), CqlRequestSerializationError> {
        Ok(())
    }