pub fn write_int(v: i32, buf: &mut impl BufMut) {
    buf.put_i32(v);
}