pub fn write_long(v: i64, buf: &mut impl BufMut) {
    buf.put_i64(v);
}