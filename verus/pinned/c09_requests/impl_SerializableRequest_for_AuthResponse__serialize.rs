fn serialize(&self, buf: &mut Vec<u8>) -> Result<(), CqlRequestSerializationError> {
        Ok(write_bytes_opt(self.response.as_ref(), buf)
            .map_err(AuthResponseSerializationError::ResponseSerialization)?)
    }