pub fn set_stream(&mut self, stream: i16) {
        self.data[2..4].copy_from_slice(&stream.to_be_bytes());
    }