fn serialize_batch_statement(
    statement: &BatchStatement<'_>,
    buf: &mut impl BufMut,
) -> Result<(), BatchStatementSerializationError> {
    match statement {
        BatchStatement::Query { text } => {
            buf.put_u8(0);
            types::write_long_string(text, buf)
                .map_err(BatchStatementSerializationError::StatementStringSerialization)?;
        }
        BatchStatement::Prepared { id } => {
            buf.put_u8(1);
            types::write_short_bytes(id, buf)
                .map_err(BatchStatementSerializationError::StatementIdSerialization)?;
        }
    }

    Ok(())
}