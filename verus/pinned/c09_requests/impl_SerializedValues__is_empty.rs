pub fn is_empty(&self) -> bool {
        self.element_count() == 0
    }