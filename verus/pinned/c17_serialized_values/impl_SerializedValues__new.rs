pub const fn new() -> Self {
        SerializedValues {
            serialized_values: Vec::new(),
            element_count: 0,
        }
    }