pub fn add_value<T: SerializeValue>(
        &mut self,
        val: &T,
        typ: &ColumnType,
    ) -> Result<(), SerializationError> {
        if self.element_count() == u16::MAX {
            return Err(SerializationError(Arc::new(mk_ser_err::<Self>(
                BuiltinSerializationErrorKind::TooManyValues,
            ))));
        }

        let len_before_serialize: usize = self.serialized_values.len();

        let writer = CellWriter::new(&mut self.serialized_values);
        if let Err(e) = val.serialize(typ, writer) {
            self.serialized_values.resize(len_before_serialize, 0);
            Err(e)
        } else {
            self.element_count += 1;
            Ok(())
        }
    }