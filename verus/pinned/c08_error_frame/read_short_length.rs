pub fn read_short_length(buf: &mut &[u8]) -> Result<usize, std::io::Error> {
    let v = read_short(buf)?;
    let v: usize = v.into();
    Ok(v)
}