fn try_from(value: u16) -> Result<Self, Self::Error> {
        match value {
            0x0000 => Ok(Consistency::Any),
            0x0001 => Ok(Consistency::One),
            0x0002 => Ok(Consistency::Two),
            0x0003 => Ok(Consistency::Three),
            0x0004 => Ok(Consistency::Quorum),
            0x0005 => Ok(Consistency::All),
            0x0006 => Ok(Consistency::LocalQuorum),
            0x0007 => Ok(Consistency::EachQuorum),
            0x000A => Ok(Consistency::LocalOne),
            0x0008 => Ok(Consistency::Serial),
            0x0009 => Ok(Consistency::LocalSerial),
            _ => Err(TryFromPrimitiveError::new("Consistency", value)),
        }
    }