fn from(operation_type: u8) -> OperationType {
        match operation_type {
            0 => OperationType::Read,
            1 => OperationType::Write,
            other => OperationType::Other(other),
        }
    }