pub fn read_short_bytes<'a>(buf: &mut &'a [u8]) -> Result<&'a [u8], LowLevelDeserializationError> {
    let len = read_short_length(buf)?;
    let v = read_raw_bytes(len, buf)?;
    Ok(v)
}