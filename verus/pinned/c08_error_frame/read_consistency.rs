pub fn read_consistency(buf: &mut &[u8]) -> Result<Consistency, LowLevelDeserializationError> {
    let raw = read_short(buf)?;
    Consistency::try_from(raw).map_err(LowLevelDeserializationError::UnknownConsistency)
}