pub fn deserialize(
        features: &ProtocolFeatures,
        buf: &mut &[u8],
    ) -> Result<Self, CqlErrorParseError> {
        let code = types::read_int(buf)
            .map_err(|err| CqlErrorParseError::ErrorCodeParseError(err.into()))?;
        let reason = types::read_string(buf)
            .map_err(CqlErrorParseError::ReasonParseError)?
            .to_owned();

        let error: DbError = match code {
            0x0000 => DbError::ServerError,
            0x000A => DbError::ProtocolError,
            0x0100 => DbError::AuthenticationError,
            0x1000 => DbError::Unavailable {
                consistency: types::read_consistency(buf)
                    .map_err(|err| make_error_field_err("UNAVAILABLE", "CONSISTENCY", err))?,
                required: types::read_int(buf)
                    .map_err(|err| make_error_field_err("UNAVAILABLE", "REQUIRED", err))?,
                alive: types::read_int(buf)
                    .map_err(|err| make_error_field_err("UNAVAILABLE", "ALIVE", err))?,
            },
            0x1001 => DbError::Overloaded,
            0x1002 => DbError::IsBootstrapping,
            0x1003 => DbError::TruncateError,
            0x1100 => DbError::WriteTimeout {
                consistency: types::read_consistency(buf)
                    .map_err(|err| make_error_field_err("WRITE_TIMEOUT", "CONSISTENCY", err))?,
                received: types::read_int(buf)
                    .map_err(|err| make_error_field_err("WRITE_TIMEOUT", "RECEIVED", err))?,
                required: types::read_int(buf)
                    .map_err(|err| make_error_field_err("WRITE_TIMEOUT", "REQUIRED", err))?,
                write_type: WriteType::from(
                    types::read_string(buf)
                        .map_err(|err| make_error_field_err("WRITE_TIMEOUT", "WRITE_TYPE", err))?,
                ),
            },
            0x1200 => DbError::ReadTimeout {
                consistency: types::read_consistency(buf)
                    .map_err(|err| make_error_field_err("READ_TIMEOUT", "CONSISTENCY", err))?,
                received: types::read_int(buf)
                    .map_err(|err| make_error_field_err("READ_TIMEOUT", "RECEIVED", err))?,
                required: types::read_int(buf)
                    .map_err(|err| make_error_field_err("READ_TIMEOUT", "REQUIRED", err))?,
                data_present: buf
                    .read_u8()
                    .map_err(|err| make_error_field_err("READ_TIMEOUT", "DATA_PRESENT", err))?
                    != 0,
            },
            0x1300 => DbError::ReadFailure {
                consistency: types::read_consistency(buf)
                    .map_err(|err| make_error_field_err("READ_FAILURE", "CONSISTENCY", err))?,
                received: types::read_int(buf)
                    .map_err(|err| make_error_field_err("READ_FAILURE", "RECEIVED", err))?,
                required: types::read_int(buf)
                    .map_err(|err| make_error_field_err("READ_FAILURE", "REQUIRED", err))?,
                numfailures: types::read_int(buf)
                    .map_err(|err| make_error_field_err("READ_FAILURE", "NUM_FAILURES", err))?,
                data_present: buf
                    .read_u8()
                    .map_err(|err| make_error_field_err("READ_FAILURE", "DATA_PRESENT", err))?
                    != 0,
            },
            0x1400 => DbError::FunctionFailure {
                keyspace: types::read_string(buf)
                    .map_err(|err| make_error_field_err("FUNCTION_FAILURE", "KEYSPACE", err))?
                    .to_string(),
                function: types::read_string(buf)
                    .map_err(|err| make_error_field_err("FUNCTION_FAILURE", "FUNCTION", err))?
                    .to_string(),
                arg_types: types::read_string_list(buf)
                    .map_err(|err| make_error_field_err("FUNCTION_FAILURE", "ARG_TYPES", err))?,
            },
            0x1500 => DbError::WriteFailure {
                consistency: types::read_consistency(buf)
                    .map_err(|err| make_error_field_err("WRITE_FAILURE", "CONSISTENCY", err))?,
                received: types::read_int(buf)
                    .map_err(|err| make_error_field_err("WRITE_FAILURE", "RECEIVED", err))?,
                required: types::read_int(buf)
                    .map_err(|err| make_error_field_err("WRITE_FAILURE", "REQUIRED", err))?,
                numfailures: types::read_int(buf)
                    .map_err(|err| make_error_field_err("WRITE_FAILURE", "NUM_FAILURES", err))?,
                write_type: WriteType::from(
                    types::read_string(buf)
                        .map_err(|err| make_error_field_err("WRITE_FAILURE", "WRITE_TYPE", err))?,
                ),
            },
            0x2000 => DbError::SyntaxError,
            0x2100 => DbError::Unauthorized,
            0x2200 => DbError::Invalid,
            0x2300 => DbError::ConfigError,
            0x2400 => DbError::AlreadyExists {
                keyspace: types::read_string(buf)
                    .map_err(|err| make_error_field_err("ALREADY_EXISTS", "KEYSPACE", err))?
                    .to_string(),
                table: types::read_string(buf)
                    .map_err(|err| make_error_field_err("ALREADY_EXISTS", "TABLE", err))?
                    .to_string(),
            },
            0x2500 => DbError::Unprepared {
                statement_id: Bytes::from(
                    types::read_short_bytes(buf)
                        .map_err(|err| make_error_field_err("UNPREPARED", "STATEMENT_ID", err))?
                        .to_owned(),
                ),
            },
            code if Some(code) == features.rate_limit_error => {
                DbError::RateLimitReached {
                    op_type: OperationType::from(buf.read_u8().map_err(|err| {
                        make_error_field_err("RATE_LIMIT_REACHED", "OP_TYPE", err)
                    })?),
                    rejected_by_coordinator: buf.read_u8().map_err(|err| {
                        make_error_field_err("RATE_LIMIT_REACHED", "REJECTED_BY_COORDINATOR", err)
                    })? != 0,
                }
            }
            _ => DbError::Other(code),
        };

        Ok(Error { error, reason })
    }