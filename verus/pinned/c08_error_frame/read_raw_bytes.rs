pub(crate) fn read_raw_bytes<'a>(
    count: usize,
    buf: &mut &'a [u8],
) -> Result<&'a [u8], LowLevelDeserializationError> {
    if buf.len() < count {
        return Err(LowLevelDeserializationError::TooFewBytesReceived {
            expected: count,
            received: buf.len(),
        });
    }
    let (ret, rest) = buf.split_at(count);
    *buf = rest;
    Ok(ret)
}