fn decide_should_retry(&mut self, _query_info: RequestInfo) -> RetryDecision {
        RetryDecision::DontRetry
    }