fn decide_should_retry(&mut self, request_info: RequestInfo) -> RetryDecision {
        if request_info.consistency.is_serial() {
            return RetryDecision::DontRetry;
        };
        // Do not remove this lint!
        // It's there for a reason - we don't want new variants
        // automatically fall under `_` pattern when they are introduced.
        #[deny(clippy::wildcard_enum_match_arm)]
        match request_info.error {
            // With connection broken, we don't know if request was executed.
            RequestAttemptError::BrokenConnectionError(_) => {
                if request_info.is_idempotent {
                    RetryDecision::RetryNextTarget(None)
                } else {
                    RetryDecision::DontRetry
                }
            }
            // DbErrors
            RequestAttemptError::DbError(db_error, _) => {
                // Do not remove this lint!
                // It's there for a reason - we don't want new variants
                // automatically fall under `_` pattern when they are introduced.
                #[deny(clippy::wildcard_enum_match_arm)]
                match db_error {
                    // Basic errors - there are some problems on this node
                    // Retry on a different one if possible
                    DbError::Overloaded | DbError::ServerError | DbError::TruncateError => {
                        if request_info.is_idempotent {
                            RetryDecision::RetryNextTarget(None)
                        } else {
                            RetryDecision::DontRetry
                        }
                    }
                    // Unavailable - the current node believes that not enough nodes
                    // are alive to satisfy specified consistency requirements.
                    // Maybe this node has network problems - try a different one.
                    // Perform at most one retry - it's unlikely that two nodes
                    // have network problems at the same time
                    DbError::Unavailable { .. } => {
                        if !self.was_unavailable_retry {
                            self.was_unavailable_retry = true;
                            RetryDecision::RetryNextTarget(None)
                        } else {
                            RetryDecision::DontRetry
                        }
                    }
                    // ReadTimeout - coordinator didn't receive enough replies in time.
                    // Retry at most once and only if there were actually enough replies
                    // to satisfy consistency but they were all just checksums (data_present == false).
                    // This happens when the coordinator picked replicas that were overloaded/dying.
                    // Retried request should have some useful response because the node will detect
                    // that these replicas are dead.
                    DbError::ReadTimeout {
                        received,
                        required,
                        data_present,
                        ..
                    } => {
                        if !self.was_read_timeout_retry && received >= required && !*data_present {
                            self.was_read_timeout_retry = true;
                            RetryDecision::RetrySameTarget(None)
                        } else {
                            RetryDecision::DontRetry
                        }
                    }
                    // Write timeout - coordinator didn't receive enough replies in time.
                    // Retry at most once and only for BatchLog write.
                    // Coordinator probably didn't detect the nodes as dead.
                    // By the time we retry they should be detected as dead.
                    DbError::WriteTimeout { write_type, .. } => {
                        if !self.was_write_timeout_retry
                            && request_info.is_idempotent
                            && *write_type == WriteType::BatchLog
                        {
                            self.was_write_timeout_retry = true;
                            RetryDecision::RetrySameTarget(None)
                        } else {
                            RetryDecision::DontRetry
                        }
                    }
                    // The node is still bootstrapping it can't execute the request, we should try another one
                    DbError::IsBootstrapping => RetryDecision::RetryNextTarget(None),
                    // In all other cases propagate the error to the user
                    DbError::SyntaxError
                    | DbError::Invalid
                    | DbError::AlreadyExists { .. }
                    | DbError::FunctionFailure { .. }
                    | DbError::AuthenticationError
                    | DbError::Unauthorized
                    | DbError::ConfigError
                    | DbError::ReadFailure { .. }
                    | DbError::WriteFailure { .. }
                    | DbError::Unprepared { .. }
                    | DbError::ProtocolError
                    | DbError::RateLimitReached { .. }
                    | DbError::Other(_)
                    | _ => RetryDecision::DontRetry,
                }
            }
            // Connection to the contacted node is overloaded, try another one
            RequestAttemptError::UnableToAllocStreamId => RetryDecision::RetryNextTarget(None),
            // In all other cases propagate the error to the user
            RequestAttemptError::BodyExtensionsParseError(_)
            | RequestAttemptError::CqlErrorParseError(_)
            | RequestAttemptError::CqlRequestSerialization(_)
            | RequestAttemptError::CqlResultParseError(_)
            | RequestAttemptError::NonfinishedPagingState
            | RequestAttemptError::RepreparedIdChanged { .. }
            | RequestAttemptError::RepreparedIdMissingInBatch
            | RequestAttemptError::SerializationError(_)
            | RequestAttemptError::UnexpectedResponse(_) => RetryDecision::DontRetry,
        }
    }