pub fn new() -> DowngradingConsistencyRetrySession {
        DowngradingConsistencyRetrySession { was_retry: false }
    }