pub fn new() -> DefaultRetrySession {
        DefaultRetrySession {
            was_unavailable_retry: false,
            was_read_timeout_retry: false,
            was_write_timeout_retry: false,
        }
    }