pub fn is_serial(&self) -> bool {
        matches!(self, Consistency::Serial | Consistency::LocalSerial)
    }