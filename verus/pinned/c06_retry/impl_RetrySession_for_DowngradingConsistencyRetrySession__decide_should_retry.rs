fn decide_should_retry(&mut self, request_info: RequestInfo) -> RetryDecision {
        let cl = match request_info.consistency {
            Consistency::Serial | Consistency::LocalSerial => {
                return match request_info.error {
                    RequestAttemptError::DbError(DbError::Unavailable { .. }, _) => {
                        // JAVA-764: if the requested consistency level is serial, it means that the operation failed at
                        // the paxos phase of a LWT.
                        // Retry on the next target, on the assumption that the initial coordinator could be network-isolated.
                        RetryDecision::RetryNextTarget(None)
                    }
                    _ => RetryDecision::DontRetry,
                };
            }
            cl => cl,
        };

        fn max_likely_to_work_cl(known_ok: i32, previous_cl: Consistency) -> RetryDecision {
            let decision = if known_ok >= 3 {
                RetryDecision::RetrySameTarget(Some(Consistency::Three))
            } else if known_ok == 2 {
                RetryDecision::RetrySameTarget(Some(Consistency::Two))
            } else if known_ok == 1 || previous_cl == Consistency::EachQuorum {
                // JAVA-1005: EACH_QUORUM does not report a global number of alive replicas
                // so even if we get 0 alive replicas, there might be
                // a node up in some other datacenter
                RetryDecision::RetrySameTarget(Some(Consistency::One))
            } else {
                RetryDecision::DontRetry
            };
            if let RetryDecision::RetrySameTarget(new_cl) = decision {
                debug!(
                    "Decided to lower required consistency from {} to {:?}.",
                    previous_cl, new_cl
                );
            }
            decision
        }

        // Do not remove this lint!
        // It's there for a reason - we don't want new variants
        // automatically fall under `_` pattern when they are introduced.
        #[deny(clippy::wildcard_enum_match_arm)]
        match request_info.error {
            // With connection broken, we don't know if request was executed.
            RequestAttemptError::BrokenConnectionError(_) => {
                if request_info.is_idempotent {
                    RetryDecision::RetryNextTarget(None)
                } else {
                    RetryDecision::DontRetry
                }
            }
            // DbErrors
            RequestAttemptError::DbError(db_error, _) => {
                // Do not remove this lint!
                // It's there for a reason - we don't want new variants
                // automatically fall under `_` pattern when they are introduced.
                #[deny(clippy::wildcard_enum_match_arm)]
                match db_error {
                    // Basic errors - there are some problems on this node
                    // Retry on a different one if possible
                    DbError::Overloaded | DbError::ServerError | DbError::TruncateError => {
                        if request_info.is_idempotent {
                            RetryDecision::RetryNextTarget(None)
                        } else {
                            RetryDecision::DontRetry
                        }
                    }
                    // Unavailable - the current node believes that not enough nodes
                    // are alive to satisfy specified consistency requirements.
                    DbError::Unavailable { alive, .. } => {
                        if !self.was_retry {
                            self.was_retry = true;
                            max_likely_to_work_cl(*alive, cl)
                        } else {
                            RetryDecision::DontRetry
                        }
                    }
                    // ReadTimeout - coordinator didn't receive enough replies in time.
                    DbError::ReadTimeout {
                        received,
                        required,
                        data_present,
                        ..
                    } => {
                        if self.was_retry {
                            RetryDecision::DontRetry
                        } else if received < required {
                            self.was_retry = true;
                            max_likely_to_work_cl(*received, cl)
                        } else if !*data_present {
                            self.was_retry = true;
                            RetryDecision::RetrySameTarget(None)
                        } else {
                            RetryDecision::DontRetry
                        }
                    }
                    // Write timeout - coordinator didn't receive enough replies in time.
                    DbError::WriteTimeout {
                        write_type,
                        received,
                        ..
                    } => {
                        if self.was_retry || !request_info.is_idempotent {
                            RetryDecision::DontRetry
                        } else {
                            self.was_retry = true;
                            match write_type {
                                WriteType::Batch | WriteType::Simple if *received > 0 => {
                                    RetryDecision::IgnoreWriteError
                                }

                                WriteType::UnloggedBatch => {
                                    // Since only part of the batch could have been persisted,
                                    // retry with whatever consistency should allow to persist all
                                    max_likely_to_work_cl(*received, cl)
                                }
                                WriteType::BatchLog => RetryDecision::RetrySameTarget(None),

                                WriteType::Counter
                                | WriteType::Cas
                                | WriteType::View
                                | WriteType::Cdc
                                | WriteType::Simple
                                | WriteType::Batch
                                | WriteType::Other(_) => RetryDecision::DontRetry,
                            }
                        }
                    }
                    // The node is still bootstrapping it can't execute the request, we should try another one
                    DbError::IsBootstrapping => RetryDecision::RetryNextTarget(None),
                    // In all other cases propagate the error to the user
                    DbError::SyntaxError
                    | DbError::Invalid
                    | DbError::AlreadyExists { .. }
                    | DbError::FunctionFailure { .. }
                    | DbError::AuthenticationError
                    | DbError::Unauthorized
                    | DbError::ConfigError
                    | DbError::ReadFailure { .. }
                    | DbError::WriteFailure { .. }
                    | DbError::Unprepared { .. }
                    | DbError::ProtocolError
                    | DbError::RateLimitReached { .. }
                    | DbError::Other(_)
                    | _ => RetryDecision::DontRetry,
                }
            }
            // Connection to the contacted node is overloaded, try another one
            RequestAttemptError::UnableToAllocStreamId => RetryDecision::RetryNextTarget(None),
            // In all other cases propagate the error to the user
            RequestAttemptError::BodyExtensionsParseError(_)
            | RequestAttemptError::CqlErrorParseError(_)
            | RequestAttemptError::CqlRequestSerialization(_)
            | RequestAttemptError::CqlResultParseError(_)
            | RequestAttemptError::NonfinishedPagingState
            | RequestAttemptError::RepreparedIdChanged { .. }
            | RequestAttemptError::RepreparedIdMissingInBatch
            | RequestAttemptError::SerializationError(_)
            | RequestAttemptError::UnexpectedResponse(_) => RetryDecision::DontRetry,
        }
    }