fn compute_next(&self, last: i64) -> i64 {
        let current = SystemTime::now().duration_since(UNIX_EPOCH);
        if let Ok(cur_time) = current {
            // We have generated a valid timestamp
            let u_cur = cur_time.as_micros() as i64;
            if u_cur > last {
                // We have generated a valid, monotonic timestamp
                return u_cur;
            } else if let Some(cfg) = self.config.as_ref() {
                // We have detected clock skew, we will increment the last timestamp, and check if we should warn the user
                if last - u_cur > cfg.warning_threshold.as_micros() as i64 {
                    // We have detected a clock skew bigger than the threshold, we check if we warned the user recently
                    let mut last_warn = self.last_warning.lock().unwrap();
                    let now = Instant::now();
                    if now >= last_warn.checked_add(cfg.warning_interval).unwrap() {
                        // We have not warned the user recently, we will warn the user
                        *last_warn = now;
                        drop(last_warn);
                        warn!(
                            "Clock skew detected. The current time ({}) was {} \
                    microseconds behind the last generated timestamp ({}). \
                    The next generated timestamp will be artificially incremented \
                    to guarantee monotonicity.",
                            u_cur,
                            last - u_cur,
                            last
                        )
                    }
                }
            }
        } else {
            // We have generated a timestamp before UNIX epoch, we will warn the user and increment the last timestamp
            warn!("Clock skew detected. The current time was behind UNIX epoch.");
        }

        last + 1
    }