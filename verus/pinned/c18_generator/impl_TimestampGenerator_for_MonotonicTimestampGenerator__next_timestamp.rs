fn next_timestamp(&self) -> i64 {
        loop {
            let last = self.last.load(Ordering::SeqCst);
            let cur = self.compute_next(last);
            if self
                .last
                .compare_exchange(last, cur, Ordering::SeqCst, Ordering::SeqCst)
                .is_ok()
            {
                return cur;
            }
        }
    }