from verus import Unit
from kani import Harness

F = "scylla-cql-core/src/frame/types.rs:"
PROPERTY = {
    "title": "decoding any bytes from the network returns a value or an error, never a crash",
    "level": "other",
    "level_text": "Mixed, reported separately: (proof, unbounded input length) Verus proves on the extracted real low-level readers read_raw_bytes/read_short/read_int/read_int_length/read_short_length/read_short_bytes/read_bytes_opt/read_value that they never read past the input, never panic or overflow, consume exactly the bytes of the item, reject negative/oversized lengths, and return exactly the big-endian value / slice of the CQL v4 grammar; (bounded) Kani executes the typed response parsers on short fully symbolic inputs.",
    "level_note": "Trusted: Verus/Z3; byteorder's read_u16/read_i32 over &[u8] (reads n bytes big-endian or fails) as external_body contracts; error conversions unspecified. Not covered: stack depth of recursive type parsing, allocation proportional to wire-controlled counts (see DESIGN §6), decompression libraries, inputs longer than the Kani bounds for non-primitive parsers.",
    "technique": "contract-based deductive verification: Verus functional contracts on extracted reader functions; Kani bounded harnesses for composite parsers",
    "explanation": "primitives: deductive proof for all input lengths (Verus); composite parsers: bounded model checking (Kani), listed under bounded_stand_ins",
    "verus": [
        Unit("c08_readers", "C08", "c08_readers.vrs", desc={
            "read_raw_bytes": "Ok iff count <= remaining; returns the first count bytes, advances by count; Err leaves input untouched",
            "read_int": "Ok iff >= 4 bytes; big-endian two's complement; advances 4",
            "read_short": "Ok iff >= 2 bytes; big-endian; advances 2",
            "read_short_length": "as read_short, widened",
            "read_int_length": "Ok iff >= 4 bytes and value >= 0 (negative never becomes a length)",
            "read_short_bytes": "[short bytes]: exactly n following bytes or Err",
            "read_bytes_opt": "[bytes]: n<0 => None; else exactly n bytes or Err",
            "read_value": "[value]: -1 Null, -2 Unset, n>=0 exactly n bytes, n<-2 Err",
            "RawValue::as_value": "Some for Value, None for Null/Unset",
        }),
        Unit("c08_error_frame", "C08", "c08_error_frame.vrs", desc={
            "Error::deserialize": "ERROR body: never past the end; Ok => the DbError variant is the one the protocol's error code denotes (all 18 codes + negotiated rate-limit code + Other)",
            "Consistency::try_from": "[consistency] code table per protocol; unknown code => Err",
            "read_consistency": "2 bytes BE -> Consistency per table",
            "OperationType::from": "0 Read, 1 Write, else Other",
        }),
    ],
    "timeout": 900,
    "kani": [
        Harness("c08_write_type_from", "C08.error_frame.write_type_table", "PROVED-C", "WriteType::from: the 8 protocol strings map to their variants (the leaf the Verus unit assumes)", crate="scylla-cql-core", functions=["scylla-cql-core/src/frame/response/error.rs:<WriteType as From<&str>>::from"]),
        Harness("c08_body_extensions_tracing", "C08.body_extensions.tracing", "BOUNDED", "parse_response_body_extensions with/without TRACING on every body of 0..=18 bytes: Ok iff the 16-byte trace id is there; trace id / rest exact; never a panic", bound="body <= 18 bytes", crate="scylla-cql", tier="thorough", timeout=3000, functions=["scylla-cql/src/frame/mod.rs:parse_response_body_extensions", "scylla-cql/src/frame/types.rs:read_uuid"]),
        Harness("c08_body_extensions_compression_not_negotiated", "C08.body_extensions.compression_flag", "BOUNDED", "COMPRESSION flag without negotiated compression => Err for any body", bound="body <= 4 bytes", crate="scylla-cql", tier="thorough", timeout=3000, functions=["scylla-cql/src/frame/mod.rs:parse_response_body_extensions"]),
        Harness("c08_twin_read_value", "C08.twin.read_value", "BOUNDED", "read_value on every input of <= 8 bytes: exact result, never past the end", bound="input <= 8 bytes", crate="scylla-cql-core", twin=True, functions=[F + "read_value"]),
        Harness("c08_twin_read_bytes_opt_and_short_bytes", "C08.twin.read_bytes_opt", "BOUNDED", "read_bytes_opt / read_short_bytes / read_int_length on every input of <= 8 bytes", bound="input <= 8 bytes", crate="scylla-cql-core", twin=True, functions=[F + "read_bytes_opt", F + "read_short_bytes", F + "read_int_length"]),
    ],
    "trusted_base": ["Verus/Z3 soundness", "byteorder::ReadBytesExt::{read_u16,read_i32}::<BigEndian> on &[u8] (external_body contracts)", "thiserror-generated From impls (unspecified)"],
    "assumptions": [],
    "not_covered": ["typed response parsers beyond the primitives (pending Kani harnesses)", "stack depth / allocation size", "lz4/snappy internals"],
}
