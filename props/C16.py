from verus import Unit
from kani import Harness

M = "scylla-macros/src/"
PROPERTY = {
    "title": "derived row/UDT mappings bind fields by name regardless of database order",
    "level": "model_checking",
    "level_text": "Bounded model checking of the macro EXPANSIONS for a fixed family of derived structs (3 fields: int, bigint, Option<smallint>): for all 6 permutations of the database-side field/column order and all field values, Kani checks on the compiled generated code that by-name serialization puts each value in the database's position (bytes == independent spec encoding), that value -> bytes -> value is the identity, that the enforce_order flavour accepts precisely the declared order, that renamed fields bind to the like-named database field, that a struct field missing from the database type is rejected, that an excess database field (any position) gets NULL in its own position and is ignored on read, that an allow_missing field is filled from the like-named field wherever it is listed; for UDT values and for rows.",
    "level_note": "Bounded by construction: a fixed struct family with 3 fields, not the macro generator itself (contracts cannot be put on proc-macro token manipulation). Not covered: flatten, default_when_null, forbid_excess_udt_fields, skip_name_checks, more than 3(+1) fields.",
    "technique": "bounded model checking with Kani of derive-macro expansions over all field-order permutations (labelled bounded; no deductive contract reaches a proc-macro)",
    "timeout": 1500,
    "kani": [
        Harness("c16_udt_by_name_all_orders", "C16.udt.by_name", "BOUNDED", "all 6 DB field orders x all values: bytes in DB order, round trip identity", bound="3-field struct family", crate="scylla-cql-core", functions=[M + "serialize/value.rs (expansion)", M + "deserialize/value.rs (expansion)"]),
        Harness("c16_udt_enforce_order", "C16.udt.enforce_order", "BOUNDED", "ordered flavour accepts precisely the declared order", bound="3-field struct family", crate="scylla-cql-core", functions=[M + "serialize/value.rs (expansion)"]),
        Harness("c16_udt_rename", "C16.udt.rename", "BOUNDED", "renamed (crossed) names bind to the like-named DB field in every order", bound="3-field struct family", crate="scylla-cql-core", functions=[M + "serialize/value.rs (expansion)"]),
        Harness("c16_udt_missing_field_rejected", "C16.udt.missing_rejected", "BOUNDED", "unknown DB field / missing struct field rejected under default attributes", bound="3-field struct family", crate="scylla-cql-core", functions=[M + "serialize/value.rs (expansion)"]),
        Harness("c16_udt_excess_field_any_position", "C16.udt.excess_field", "BOUNDED", "an unknown database field at any of 4 positions x all orders: NULL in its own position, nothing shifted; ignored on read", bound="3-field struct family + 1 excess field", crate="scylla-cql-core", functions=[M + "serialize/value.rs (expansion)", M + "deserialize/value.rs (expansion)"]),
        Harness("c16_udt_allow_missing_all_orders", "C16.udt.allow_missing", "BOUNDED", "allow_missing field filled from the like-named database field in all 6 orders", bound="3-field struct family", crate="scylla-cql-core", functions=[M + "deserialize/value.rs (expansion)"]),
        Harness("c16_row_by_name_all_orders", "C16.row.by_name", "BOUNDED", "derived SerializeRow/DeserializeRow: all 6 column orders, bytes in DB order, round trip", bound="3-field struct family", crate="scylla-cql-core", functions=[M + "serialize/row.rs (expansion)", M + "deserialize/row.rs (expansion)"]),
        Harness("c16_canary_declared_order_on_the_wire", "C16.canary", "BOUNDED", "a false claim must be refuted", crate="scylla-cql-core", carries=False, canary=True),
    ],
    "verus": [],
    "trusted_base": ["Kani/CBMC soundness", "stubs: std::rt::thread_cleanup, alloc::fmt::format (error-message text only)"],
    "assumptions": [],
    "not_covered": ["the macro generator for arbitrary structs", "attributes flatten/default_when_null/allow_missing/forbid_excess_udt_fields/skip_name_checks", "more than 3 fields"],
}
