from verus import Unit
from kani import Harness

F = "scylla/src/network/connection.rs:"
PROPERTY = {
    "title": "after USE keyspace succeeds, all requests run on connections in that keyspace",
    "level": "other",
    "level_text": "Deductive proof of the local-validation sentence, nothing claimed for the pool-ordering sentences: Verus proves on the extracted real VerifiedKeyspaceName::{verify_keyspace_name_is_valid, new, as_str} that, for names of ANY length and any characters, a name is accepted iff it has 1..=48 characters all in [A-Za-z0-9_], that an accepted name is stored and returned unchanged, and (lemma) that a verified name contains no quote, whitespace, semicolon or backslash — so it cannot alter the `USE <name>` statement it is interpolated into. Bounded Kani twins on the compiled code (as before): Kani executes the real VerifiedKeyspaceName::new / verify_keyspace_name_is_valid on every ASCII name of length 0..=5 and every name consisting of 'a' followed by a 2-byte UTF-8 character and checks acceptance iff 1..=48 characters all in [A-Za-z0-9_], the stored name unchanged, and the error kind.",
    "level_note": "Trusted: Verus/Z3; vstd's model of str::chars()/String; `chars().count()` as an external_body contract. The Kani harnesses are bounded stand-ins (name length). The session/pool-level ordering sentences of C20 (connections opened concurrently are not used before the keyspace is set) are schedule properties over tasks and sockets and are NOT covered by any contract here.",
    "technique": "contract-based deductive verification: Verus contract on the extracted validation function (+ bounded Kani twins)",
    "timeout": 900,
    "kani": [
        Harness("c20_name_ascii_len2", "C20.name.ascii_le2", "BOUNDED", "Ok <=> 1..=48 chars all [A-Za-z0-9_]; name stored unchanged; error kinds", bound="ASCII names of length <= 2", twin=True, functions=[F + "VerifiedKeyspaceName::new", F + "VerifiedKeyspaceName::verify_keyspace_name_is_valid"]),
        Harness("c20_name_ascii_len5", "C20.name.ascii_le5", "BOUNDED", "Ok <=> 1..=48 chars all [A-Za-z0-9_]; name stored unchanged; error kinds", bound="ASCII names of length <= 5", twin=True, tier="thorough", functions=[F + "VerifiedKeyspaceName::new", F + "VerifiedKeyspaceName::verify_keyspace_name_is_valid", F + "VerifiedKeyspaceName::as_str"]),
        Harness("c20_name_non_ascii_rejected", "C20.name.non_ascii", "BOUNDED", "a name with any 2-byte UTF-8 character is rejected", bound="3-byte names 'a' + one 2-byte character", twin=True, tier="thorough", functions=[F + "VerifiedKeyspaceName::new"]),
        Harness("c20_canary_everything_rejected", "C20.canary", "BOUNDED", "a false claim must be refuted", carries=False, canary=True, twin=True),
    ],
    "verus": [
        Unit("c20_keyspace_name", "C20", "c20_keyspace_name.vrs", desc={
            "VerifiedKeyspaceName::verify_keyspace_name_is_valid": "Ok <=> 1..=48 chars, all [A-Za-z0-9_] (any length, any characters)",
            "VerifiedKeyspaceName::new": "Ok <=> valid; stored name == input, case flag preserved",
            "VerifiedKeyspaceName::as_str": "returns the stored name",
            "lemma_no_injection": "a valid name contains no quote / whitespace / semicolon / backslash",
        }, carries_lemmas=("lemma_no_injection",)),
    ],
    "trusted_base": ["Kani/CBMC soundness", "std::rt::thread_cleanup stub (ICE work-around)"],
    "assumptions": [],
    "not_covered": ["pool-level ordering of USE vs. connection establishment/refill (schedules over tasks)", "statement text `USE name` construction in Connection::use_keyspace (async, needs a live router)", "(twins only) names longer than the twins' bounds - the Verus proof covers every length"],
    "explanation": "validation sentence: deductive proof (Verus); session/pool ordering sentences: not covered by any contract (schedules over tasks and sockets)",
}
