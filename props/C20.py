from verus import Unit
from kani import Harness

F = "scylla/src/network/connection.rs:"
PROPERTY = {
    "title": "after USE keyspace succeeds, all requests run on connections in that keyspace",
    "level": "other",
    "level_text": "Deductive proof of the local-validation sentence, nothing claimed for the pool-ordering sentences: Verus proves on the extracted real VerifiedKeyspaceName::{verify_keyspace_name_is_valid, new, as_str} that, for names of ANY length and any characters, a name is accepted iff it has 1..=48 characters all in [A-Za-z0-9_], that an accepted name is stored and returned unchanged, and (lemma) that a verified name contains no quote, whitespace, semicolon or backslash — so it cannot alter the `USE <name>` statement it is interpolated into. Bounded Kani twins on the compiled code (as before): Kani executes the real VerifiedKeyspaceName::new / verify_keyspace_name_is_valid on every ASCII name of length 0..=5 and every name consisting of 'a' followed by a 2-byte UTF-8 character and checks acceptance iff 1..=48 characters all in [A-Za-z0-9_], the stored name unchanged, and the error kind.",
    "level_note": "Trusted: Verus/Z3; vstd's model of str::chars()/String; `chars().count()` as an external_body contract. The session/pool-level ordering sentences of C20 (connections opened concurrently are not used before the keyspace is set) are schedule properties over tasks and sockets and are NOT covered by any contract here.",
    "technique": "contract-based deductive verification: Verus contract on the extracted validation function ",
    "timeout": 900,
    # Bounded Kani twins of the validation (names of <= 2 / <= 5 ASCII bytes, a non-ASCII name; kani/C20, kept for the record) were
    # registered at first and removed: `str::chars()` + the error's `to_string()` make even the 2-byte case run out of memory
    # (> 36 GB) on the unchanged tree when the machine is busy, i.e. they could turn a thorough run into "undecided".
    "kani": [],
    "verus": [
        Unit("c20_keyspace_name", "C20", "c20_keyspace_name.vrs", desc={
            "VerifiedKeyspaceName::verify_keyspace_name_is_valid": "Ok <=> 1..=48 chars, all [A-Za-z0-9_] (any length, any characters)",
            "VerifiedKeyspaceName::new": "Ok <=> valid; stored name == input, case flag preserved",
            "VerifiedKeyspaceName::as_str": "returns the stored name",
            "lemma_no_injection": "a valid name contains no quote / whitespace / semicolon / backslash",
        }, carries_lemmas=("lemma_no_injection",)),
    ],
    "trusted_base": ["Verus/Z3 soundness", "vstd model of str::chars() and String"],
    "assumptions": [],
    "not_covered": ["pool-level ordering of USE vs. connection establishment/refill (schedules over tasks)", "statement text `USE name` construction in Connection::use_keyspace (async, needs a live router)", "no bounded twin on the compiled code (CBMC runs out of memory on str::chars)"],
    "explanation": "validation sentence: deductive proof (Verus); session/pool ordering sentences: not covered by any contract (schedules over tasks and sockets)",
}
