from verus import Unit
from kani import Harness

F = "scylla/src/network/connection.rs:"
PROPERTY = {
    "title": "after USE keyspace succeeds, all requests run on connections in that keyspace",
    "level": "model_checking",
    "level_text": "Bounded check of the local-validation sentence only: Kani executes the real VerifiedKeyspaceName::new / verify_keyspace_name_is_valid on every ASCII name of length 0..=5 and every name consisting of 'a' followed by a 2-byte UTF-8 character and checks acceptance iff 1..=48 characters all in [A-Za-z0-9_], the stored name unchanged, and the error kind.",
    "level_note": "Bounded stand-in (name length), not a proof. The session/pool-level ordering sentences of C20 (connections opened concurrently are not used before the keyspace is set) are schedule properties over tasks and sockets and are NOT covered by any contract here.",
    "technique": "bounded model checking of the real validation function with Kani (labelled bounded; no deductive proof: Verus has no str/char iteration support)",
    "timeout": 900,
    "kani": [
        Harness("c20_name_ascii_len5", "C20.name.ascii_le5", "BOUNDED", "Ok <=> 1..=48 chars all [A-Za-z0-9_]; name stored unchanged; error kinds", bound="ASCII names of length <= 5", functions=[F + "VerifiedKeyspaceName::new", F + "VerifiedKeyspaceName::verify_keyspace_name_is_valid", F + "VerifiedKeyspaceName::as_str"]),
        Harness("c20_name_non_ascii_rejected", "C20.name.non_ascii", "BOUNDED", "a name with any 2-byte UTF-8 character is rejected", bound="3-byte names 'a' + one 2-byte character", functions=[F + "VerifiedKeyspaceName::new"]),
        Harness("c20_canary_everything_rejected", "C20.canary", "BOUNDED", "a false claim must be refuted", carries=False, canary=True),
    ],
    "verus": [],
    "trusted_base": ["Kani/CBMC soundness", "std::rt::thread_cleanup stub (ICE work-around)"],
    "assumptions": [],
    "not_covered": ["pool-level ordering of USE vs. connection establishment/refill (schedules over tasks)", "statement text `USE name` construction in Connection::use_keyspace (async, needs a live router)", "names longer than the bound"],
    "explanation": "",
}
