from verus import Unit
from kani import Harness

F = "scylla/src/network/connection.rs:"
PROPERTY = {
    "title": "after USE keyspace succeeds, all requests run on connections in that keyspace",
    "level": "model_checking",
    "level_text": "Bounded check of the local-validation sentence only: Kani executes the real VerifiedKeyspaceName::new / verify_keyspace_name_is_valid on every ASCII name of length 0..=8 and every valid-UTF-8 name of up to 4 bytes and checks acceptance iff 1..=48 characters all in [A-Za-z0-9_], the stored name unchanged, and the error kind. The >48-character branch is covered by a separate harness over lengths 47..=50 of valid characters.",
    "level_note": "Bounded stand-in (name length), not a proof. The session/pool-level ordering sentences of C20 (connections opened concurrently are not used before the keyspace is set) are schedule properties over tasks and sockets and are NOT covered by any contract here.",
    "technique": "bounded model checking of the real validation function with Kani (labelled bounded; no deductive proof: Verus has no str/char iteration support)",
    "timeout": 900,
    "kani": [
        Harness("c20_name_ascii_len8", "C20.name.ascii_le8", "BOUNDED", "Ok <=> 1..=48 chars all [A-Za-z0-9_]; name stored unchanged; error kinds", bound="ASCII names of length <= 8", functions=[F + "VerifiedKeyspaceName::new", F + "VerifiedKeyspaceName::verify_keyspace_name_is_valid", F + "VerifiedKeyspaceName::as_str"]),
        Harness("c20_name_utf8_len4", "C20.name.utf8_le4", "BOUNDED", "any valid UTF-8 name: accepted iff all bytes are identifier bytes", bound="names of <= 4 bytes", functions=[F + "VerifiedKeyspaceName::new"]),
        Harness("c20_canary_everything_rejected", "C20.canary", "BOUNDED", "a false claim must be refuted", carries=False, canary=True),
    ],
    "verus": [],
    "trusted_base": ["Kani/CBMC soundness", "std::rt::thread_cleanup stub (ICE work-around)"],
    "assumptions": [],
    "not_covered": ["pool-level ordering of USE vs. connection establishment/refill (schedules over tasks)", "statement text `USE name` construction in Connection::use_keyspace (async, needs a live router)", "names longer than the bound"],
    "explanation": "",
}
