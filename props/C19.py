from verus import Unit
from kani import Harness

F = "scylla/src/cluster/metadata/merge_channel.rs:"
PROPERTY = {
    "title": "metadata updates handed between driver workers are neither lost nor duplicated",
    "level": "model_checking",
    "level_text": "Bounded model checking of the real hand-off code at poll granularity: Kani/CBMC explores EVERY schedule of up to 3 (quick) / 5 (thorough) steps from {merge(x), drop sender, start+poll receive, poll receive again, cancel receive} over the real merge_channel (recv state machine, std Mutex, atomics as compiled; tokio's Notify replaced by a contract model under cfg(kani)) with a ghost slot and a wake counter and checks: each received value is exactly the set of updates merged since the previous receive (none lost, none duplicated, in order), a poll is Ready whenever a value is pending, a parked consumer is woken by merge and by sender drop, None only after the sender is gone and the slot is empty, whatever is pending at the end is obtainable by one more receive, and modify returns Err after the receiver is dropped.",
    "level_note": "Bounded stand-in (schedule length), sequential: true multi-threaded interleavings inside modify/recv (between mutex release and notify_one, Acquire/Release pairs) are NOT covered — Kani has no threads. The user-visible liveness sentences (refresh eventually answered) are not covered.",
    "technique": "bounded model checking of the real code under a symbolic step schedule with Kani (labelled bounded; contracts as assertions over a ghost slot)",
    "timeout": 1500,
    "kani": [
        Harness("c19_schedule_3", "C19.schedule.le3", "BOUNDED", "all schedules of <= 3 steps", bound="3 steps", functions=[F + "merge_channel", F + "Sender::modify", F + "Sender::drop", F + "Receiver::recv"]),
        Harness("c19_schedule_5", "C19.schedule.le5", "BOUNDED", "all schedules of <= 5 steps", bound="5 steps", tier="thorough", timeout=3000, functions=[F + "Receiver::recv", F + "Sender::modify"]),
        Harness("c19_scenario_park_merge_drop_poll_start", "C19.scenario.park_merge_drop_poll_start", "BOUNDED", "parked consumer; merge; sender dropped; poll => the update; next receive => end of stream (same assertions as the schedules)", bound="one concrete 5-step schedule", functions=[F + "Receiver::recv", F + "Sender::modify", F + "Sender::drop"]),
        Harness("c19_scenario_park_merge_merge_poll_start", "C19.scenario.park_merge_merge_poll_start", "BOUNDED", "parked consumer; two merges; poll => both at once; next receive parks (no spurious end of stream) (same assertions as the schedules)", bound="one concrete 5-step schedule", functions=[F + "Receiver::recv", F + "Sender::modify", F + "Sender::drop"]),
        Harness("c19_scenario_park_cancel_merge_start_start", "C19.scenario.park_cancel_merge_start_start", "BOUNDED", "park; cancel; merge; restart => the update; restart => parks (same assertions as the schedules)", bound="one concrete 5-step schedule", functions=[F + "Receiver::recv", F + "Sender::modify", F + "Sender::drop"]),
        Harness("c19_scenario_park_merge_cancel_start_start", "C19.scenario.park_merge_cancel_start_start", "BOUNDED", "park; merge (woken); cancel before polling; restart => the update exactly once; restart => parks (same assertions as the schedules)", bound="one concrete 5-step schedule", functions=[F + "Receiver::recv", F + "Sender::modify", F + "Sender::drop"]),
        Harness("c19_modify_after_receiver_drop", "C19.sender_learns_receiver_gone", "PROVED-C", "modify returns Err(SendError) once the receiver is dropped", functions=[F + "Sender::modify", F + "Receiver::drop"]),
        Harness("c19_canary_value_received_twice", "C19.canary", "BOUNDED", "a false claim must be refuted", carries=False, canary=True),
    ],
    "verus": [],
    "trusted_base": ["Kani/CBMC soundness", "ASSUMED contract model of tokio::sync::Notify (kani/_base/scylla/src/cluster/metadata/merge_channel/verif_kani.rs: permit, single waiter, notification passed on when a notified future is dropped)", "std::sync::Mutex::lock stubbed by try_lock + checked non-contention; atomics executed with sequential semantics", "std::rt::thread_cleanup stub (ICE work-around)"],
    "assumptions": ["poll granularity: each step runs to completion before the next (no preemption inside modify/recv)"],
    "not_covered": ["schedules longer than 5 steps (7 steps: CBMC out of memory / no answer)", "tokio::sync::Notify itself (contract assumed)", "multi-threaded interleavings inside modify/recv", "liveness of the metadata refresh path (worker.rs)"],
}
