from verus import Unit
from kani import Harness

PROPERTY = {
    "title": "a request not marked idempotent is never re-sent after it may have been applied",
    "level": "proof",
    "level_text": "Deductive proof over the full domain (every RequestAttemptError/DbError variant with arbitrary field values incl. strings, every session state, idempotence flag and consistency): Verus proves on the extracted real decide_should_retry of the Default, DowngradingConsistency and Fallthrough sessions that a non-idempotent request is retried only after Unavailable / IsBootstrapping / UnableToAllocStreamId / ReadTimeout, that IgnoreWriteError needs idempotence, that the default policy never retries at serial consistency, and that same-target retries are gated by one-shot flags; lemmas over arbitrary failure histories bound same-target retries by 2 (Default) / 1 (Downgrading) / 0 (Fallthrough).",
    "level_note": "Trusted: Verus/Z3; payload types of the error enums are opaque (never inspected by the policies); derive(PartialEq) on WriteType/Consistency is structural equality. Not covered: the async execution loop (client/execution.rs) sending exactly the attempts the policy decided, and the plan-length part of the attempt bound (needs Session/Connection; no function-level contract within reach).",
    "technique": "contract-based deductive verification: Verus ensures-clauses taken from the property text on extracted functions + inductive lemmas over decision histories",
    "verus": [
        Unit("c06_retry", "C06", "c06_retry.vrs", desc={
            "DefaultRetrySession::decide_should_retry": "non-idempotent retried only after not-applied errors; serial => DontRetry; consistency never changed; one-shot flags monotone, same-target retry consumes one",
            "DowngradingConsistencyRetrySession::decide_should_retry": "non-idempotent retried only after not-applied errors; IgnoreWriteError only if idempotent; lowered consistency in {One,Two,Three}; single one-shot flag",
            "FallthroughRetrySession::decide_should_retry": "always DontRetry",
            "Consistency::is_serial": "true iff Serial or LocalSerial",
            "lemma_default_same_target_bound": "any failure history: at most 2 same-target retries (Default)",
            "lemma_downgrading_same_target_bound": "any failure history: at most 1 same-target retry (Downgrading)",
        }, carries_lemmas=("lemma_default_same_target_bound", "lemma_downgrading_same_target_bound")),
    ],
    "kani": [],
    "trusted_base": ["Verus/Z3 soundness", "opaque payload types of error enums", "derive(PartialEq) = structural equality"],
    "assumptions": [],
    "not_covered": ["RequestExecutionParams::run_request_speculative_fiber (async execution loop): that the driver sends exactly the decided attempts",
                    "end-to-end attempt count <= plan length + same-target retries"],
}
