from verus import Unit
from kani import Harness

PROPERTY = {
    "title": "a request not marked idempotent is never re-sent after it may have been applied",
    "level": "other",
    "level_text": "Mixed: (bounded) a Kani harness shows on 3 consecutive uses that the execution loop's accessor ExecuteRequestContext::retry_session keeps ONE session per request context, which is what the history lemmas below assume; (proof, unbounded) deductive proof over the full domain (every RequestAttemptError/DbError variant with arbitrary field values incl. strings, every session state, idempotence flag and consistency): Verus proves on the extracted real decide_should_retry of the Default, DowngradingConsistency and Fallthrough sessions that a non-idempotent request is retried only after Unavailable / IsBootstrapping / UnableToAllocStreamId / ReadTimeout, that IgnoreWriteError needs idempotence, that the default policy never retries at serial consistency, and that same-target retries are gated by one-shot flags; lemmas over arbitrary failure histories bound same-target retries by 2 (Default) / 1 (Downgrading) / 0 (Fallthrough).",
    "level_note": "Trusted: Verus/Z3; payload types of the error enums are opaque (never inspected by the policies); derive(PartialEq) on WriteType/Consistency is structural equality. Bounded (not counted as proved): the Kani harness on ExecuteRequestContext::retry_session (3 uses). Not covered: the rest of the async execution loop (client/execution.rs) sending exactly the attempts the policy decided, and the plan-length part of the attempt bound (needs Session/Connection; no function-level contract within reach).",
    "technique": "contract-based deductive verification: Verus ensures-clauses taken from the property text on extracted functions + inductive lemmas over decision histories",
    "verus": [
        Unit("c06_retry", "C06", "c06_retry.vrs", desc={
            "DefaultRetrySession::decide_should_retry": "non-idempotent retried only after not-applied errors; serial => DontRetry; consistency never changed; one-shot flags monotone, same-target retry consumes one",
            "DowngradingConsistencyRetrySession::decide_should_retry": "non-idempotent retried only after not-applied errors; IgnoreWriteError only if idempotent; lowered consistency in {One,Two,Three}; single one-shot flag",
            "FallthroughRetrySession::decide_should_retry": "always DontRetry",
            "Consistency::is_serial": "true iff Serial or LocalSerial",
            "lemma_default_same_target_bound": "any failure history: at most 2 same-target retries (Default)",
            "lemma_downgrading_same_target_bound": "any failure history: at most 1 same-target retry (Downgrading)",
        }, carries_lemmas=("lemma_default_same_target_bound", "lemma_downgrading_same_target_bound")),
    ],
    "explanation": "mixed: the three policies' decision tables and the history lemmas are unbounded Verus proofs over the full input domain; the accessor that keeps one retry session per request context is a bounded Kani harness (3 uses); see samples",
    "kani": [
        Harness("c06_retry_session_persists", "C06.execution.retry_session.persists", "BOUNDED",
                "ExecuteRequestContext::retry_session: the first use asks the policy for a session, each later use on the same request context returns that same object (address and state) and the policy is not asked again",
                bound="3 consecutive uses of the accessor on one context (the accessor has no loop; the bound is on the harness' call sequence)",
                functions=["scylla/src/client/execution.rs:ExecuteRequestContext::retry_session"], needs_cover=True, timeout=600),
    ],
    "trusted_base": ["Verus/Z3 soundness", "Kani/CBMC soundness (accessor harness; the RequestSpan reference is left uninitialised: the accessor never reads it)", "opaque payload types of error enums", "derive(PartialEq) = structural equality"],
    "assumptions": [],
    "not_covered": ["RequestExecutionParams::run_request_speculative_fiber (async execution loop) apart from its retry_session accessor: that the driver sends exactly the decided attempts",
                    "end-to-end attempt count <= plan length + same-target retries"],
}
