from verus import Unit
from kani import Harness

F = "scylla/src/policies/timestamp_generator.rs:"
PROPERTY = {
    "title": "client-side timestamps from the monotonic generator strictly increase",
    "level": "other",
    "level_text": "Rely/guarantee reduction: Kani proves on the real code (complete over all i64 `last` values and all clock readings within +/-2^63 us, incl. stalls, repeats, steps back, pre-epoch) that compute_next(last) > last, and that one next_timestamp call, under arbitrary interference by other threads that only ever raise `last` (bounded to 2 interferences per call), performs exactly one successful compare_exchange(old,new) with new > old and returns that new; a Verus lemma over abstract traces shows that if every call satisfies this guarantee, all handed-out timestamps are pairwise distinct and strictly increasing per thread.",
    "level_note": "Assumed: SeqCst compare_exchange/load on AtomicI64 are linearizable (hardware/std) and modelled by stubs; wall clock within 2^63 us of the epoch; last < i64::MAX; interference bounded to 2 failed CAS per call (the retry loop has no other bound). Not covered: the 'explicit statement timestamp is sent unchanged' half (lives in async connection code).",
    "technique": "contract-based verification: Kani harnesses with rely/guarantee stubs for the atomic + Verus trace lemma",
    "timeout": 900,
    "kani": [
        # (c18_compute_next - compute_next(last) > last standalone for all inputs - was registered for the thorough tier and removed:
        #  no answer within 45 min on the unchanged tree; the same fact is checked inside next_timestamp by the guarantee harness)
        Harness("c18_next_timestamp_guarantee", "C18.next_timestamp.guarantee", "BOUNDED", "one call = exactly one successful CAS(old,new), new > old, returns new; under <= 2 interferences", bound="<= 2 interfering writes by other threads per call (unwind 4)", functions=[F + "MonotonicTimestampGenerator::next_timestamp"]),
        Harness("c18_next_timestamp_two_calls", "C18.next_timestamp.thread_order", "BOUNDED", "two consecutive calls of one thread: second > first", bound="<= 2 interfering writes in total (unwind 4)", functions=[F + "MonotonicTimestampGenerator::next_timestamp"]),
        Harness("c18_canary_always_last_plus_one", "C18.canary", "PROVED-C", "a false claim must be refuted", carries=False, canary=True),
    ],
    "verus": [
        Unit("c18_trace", "C18", "c18_trace.vrs", desc={
            "lemma_pairwise_distinct": "any history of guarantee-satisfying CAS steps: all returned timestamps pairwise distinct",
            "lemma_per_thread_increasing": "... and strictly increasing along each thread's calls",
            "lemma_strictly_increasing": "the cell's installed values strictly increase",
        }, carries_lemmas=("lemma_pairwise_distinct", "lemma_per_thread_increasing", "lemma_strictly_increasing")),
    ],
    "trusted_base": ["Kani/CBMC soundness", "stubs: SystemTime::now (any reading), Instant::now (zero), Atomic<i64>::load/compare_exchange (sequentially consistent cell + rely), std::rt::thread_cleanup (no-op, Kani ICE work-around)"],
    "assumptions": ["AtomicI64 SeqCst CAS is linearizable", "wall clock < 2^63 microseconds from the epoch", "other threads only raise `last` (they run the same code: the guarantee proved here is the rely)"],
    "not_covered": ["explicit statement timestamp precedence (connection.rs, async)", "unbounded CAS contention (liveness)"],
    "explanation": "mixed: compute_next is a complete proof; the interference harnesses are bounded in the number of interferences; the trace lemma is unbounded",
}
