from verus import Unit
from kani import Harness

F = "scylla/src/policies/timestamp_generator.rs:"
PROPERTY = {
    "title": "client-side timestamps from the monotonic generator strictly increase",
    "level": "other",
    "level_text": "Rely/guarantee reduction, all three steps deductive: (proof, unbounded) Verus proves on the extracted real compute_next that compute_next(last) > last for every clock reading (ahead, equal, stalled, stepped back, before the epoch), and on the extracted real next_timestamp that - for ANY number of lost compare-and-swap races - a call returns r only after it atomically replaced some old < r by r; (proof, unbounded) a Verus lemma over abstract traces shows that if every call satisfies this guarantee, all handed-out timestamps are pairwise distinct and strictly increasing per thread, for any number of threads and calls; (bounded, Kani) the same guarantee re-checked on the compiled code (real AtomicI64/Mutex/Instant plumbing, incl. the warning block) under at most 2 interferences per call.",
    "level_note": "Assumed (listed in the evidence): SeqCst load/compare_exchange on AtomicI64 are linearizable (contracts of the two trusted accessors); wall clock below 2^63 us after the epoch; the cell never holds i64::MAX; the rate-limited warning block of compute_next is left unverified behind external_body in the Verus unit (it receives &self and two integers by value, so it cannot influence the result; its text is matched verbatim, so any edit inside it makes the unit undecided and leaves the decision to the Kani harnesses, which execute it); termination of the retry loop is not claimed (lock-freedom). Not covered: the 'explicit statement timestamp is sent unchanged' half (inline in async connection code).",
    "technique": "contract-based deductive verification: Verus contracts on the extracted compute_next / next_timestamp (atomic cell behind two trusted accessors) + Verus trace lemma; Kani rely/guarantee harnesses as bounded re-check of the compiled code",
    "timeout": 900,
    "kani": [
        # (c18_compute_next - compute_next(last) > last standalone for all inputs - was registered for the thorough tier and removed:
        #  no answer within 45 min on the unchanged tree; the same fact is checked inside next_timestamp by the guarantee harness)
        Harness("c18_next_timestamp_guarantee", "C18.next_timestamp.guarantee", "BOUNDED", "one call = exactly one successful CAS(old,new), new > old, returns new; under <= 2 interferences", bound="<= 2 interfering writes by other threads per call (unwind 4)", backed_by="C18.MonotonicTimestampGenerator.next_timestamp.contract", functions=[F + "MonotonicTimestampGenerator::next_timestamp"]),
        Harness("c18_next_timestamp_two_calls", "C18.next_timestamp.thread_order", "BOUNDED", "two consecutive calls of one thread: second > first", bound="<= 2 interfering writes in total (unwind 4)", backed_by="C18.MonotonicTimestampGenerator.next_timestamp.contract", functions=[F + "MonotonicTimestampGenerator::next_timestamp"]),
        Harness("c18_canary_always_last_plus_one", "C18.canary", "PROVED-C", "a false claim must be refuted", carries=False, canary=True),
    ],
    "verus": [
        Unit("c18_generator", "C18", "c18_generator.vrs", desc={
            "MonotonicTimestampGenerator::compute_next": "last < i64::MAX ==> compute_next(last) > last for EVERY clock reading (ahead, equal, behind, before the epoch); the rate-limited warning block is left unverified behind external_body (gets &self and two integers by value: cannot influence the result)",
            "MonotonicTimestampGenerator::next_timestamp": "GUARANTEE of one call for ANY number of lost compare-and-swap races (partial correctness): r is returned only after this call atomically replaced some old < r by r (cas_event introduced only by a successful compare_exchange)",
        }),
        Unit("c18_trace", "C18", "c18_trace.vrs", desc={
            "lemma_pairwise_distinct": "any history of guarantee-satisfying CAS steps: all returned timestamps pairwise distinct",
            "lemma_per_thread_increasing": "... and strictly increasing along each thread's calls",
            "lemma_strictly_increasing": "the cell's installed values strictly increase",
        }, carries_lemmas=("lemma_pairwise_distinct", "lemma_per_thread_increasing", "lemma_strictly_increasing")),
    ],
    "trusted_base": ["Kani/CBMC soundness", "stubs: SystemTime::now (any reading), Instant::now (zero), Atomic<i64>::load/compare_exchange (sequentially consistent cell + rely), std::rt::thread_cleanup (no-op, Kani ICE work-around)"],
    "assumptions": ["AtomicI64 SeqCst CAS is linearizable", "wall clock < 2^63 microseconds from the epoch", "other threads only raise `last` (they run the same code: the guarantee proved here is the rely)"],
    "not_covered": ["explicit statement timestamp precedence (connection.rs, async)", "unbounded CAS contention (liveness)"],
    "explanation": "compute_next, the one-call guarantee of next_timestamp and the trace lemma are unbounded Verus proofs; the Kani interference harnesses are bounded re-checks on the compiled code",
}
