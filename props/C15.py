from verus import Unit
from kani import Harness

PROPERTY = {
    "title": "tablet map stays a set of disjoint ranges with latest-wins lookup",
    "level": "proof",
    "verus": [
        Unit("c15_tablets", "C15", "c15_tablets.vrs", desc={
            "tablet_for_token": "wf(list) => Some(t): t in list and covers token; None: no tablet of the list covers token",
            "add_tablet": "wf preserved; new tablet present; exactly the overlapping tablets removed; all others kept; flag",
        }),
    ],
    "kani": [],
    "trusted_base": [
        "Verus/Z3 soundness",
        "std: <[T]>::partition_point returns the partition point of a partitioned slice (documented contract)",
        "std: Option::filter, Vec::drain(range) (external_body wrapper vec_drain_range), Vec::insert/get (vstd specs)",
        "derive(PartialOrd, PartialEq) on struct Token {value: i64} compares `value`",
    ],
    "assumptions": [],
    "not_covered": [],
}
