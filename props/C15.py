from verus import Unit
from kani import Harness

PROPERTY = {
    "title": "tablet map stays a set of disjoint ranges with latest-wins lookup",
    "level": "proof",
    "level_text": 'Deductive proof, all lists and tokens: Verus proves on the extracted real tablet_for_token and add_tablet that the list stays sorted and pairwise disjoint, lookup returns a covering tablet of the list or None when none covers the token, and add_tablet removes exactly the overlapping tablets, keeps all others, and inserts the new one (latest wins / stale => nothing).',
    "level_note": 'Trusted: Verus/Z3; std contracts of partition_point (documented), Option::filter, Vec::drain/insert/get; derive(PartialOrd) on Token compares value. Not covered: perform_maintenance, per-DC replica restriction.',
    "technique": 'contract-based deductive verification: Verus requires/ensures + representation invariant wf() on extracted functions',
    "verus": [
        Unit("c15_tablets", "C15", "c15_tablets.vrs", desc={
            "tablet_for_token": "wf(list) => Some(t): t in list and covers token; None: no tablet of the list covers token",
            "add_tablet": "wf preserved; new tablet present; exactly the overlapping tablets removed; all others kept; flag",
            "lemma_history_wf": "after any history of add/maintenance steps the list is sorted and pairwise disjoint",
            "lemma_history_no_stale": "every tablet in the map was learnt at some step and no later update overlapped it (no stale answers)",
            "lemma_history_latest_wins": "a learnt tablet not overlapped later (and no maintenance in between) is still in the map",
            "lemma_answer_unique": "at most one tablet of a well-formed map covers a token",
        }, carries_lemmas=("lemma_history_wf", "lemma_history_no_stale", "lemma_history_latest_wins", "lemma_answer_unique")),
    ],
    "timeout": 900,
    "kani": [
        Harness("c15_twin_add_tablet_n0", "C15.twin.add_tablet.n0", "BOUNDED", "same post-condition as the Verus contract of add_tablet (sorted+disjoint, new tablet present, exactly the overlapped ones discarded, unknown-replica flag), on the compiled code", bound="lists of exactly 0 tablets, full i64 ranges, symbolic flags", twin=True, functions=["scylla/src/routing/locator/tablets.rs:TableTablets::add_tablet"]),
        Harness("c15_twin_tablet_for_token_n1", "C15.twin.tablet_for_token.n1", "BOUNDED", "same post-condition as the Verus contract of tablet_for_token, on the compiled code", bound="lists of exactly 1 tablets, full i64 ranges", twin=True, functions=["scylla/src/routing/locator/tablets.rs:TableTablets::tablet_for_token"]),
        Harness("c15_twin_tablet_for_token_n2", "C15.twin.tablet_for_token.n2", "BOUNDED", "same post-condition as the Verus contract of tablet_for_token, on the compiled code", bound="lists of exactly 2 tablets, full i64 ranges", twin=True, functions=["scylla/src/routing/locator/tablets.rs:TableTablets::tablet_for_token"]),
    ],
    "trusted_base": [
        "Verus/Z3 soundness",
        "std: <[T]>::partition_point returns the partition point of a partitioned slice (documented contract)",
        "std: Option::filter, Vec::drain(range) (external_body wrapper vec_drain_range), Vec::insert/get (vstd specs)",
        "derive(PartialOrd, PartialEq) on struct Token {value: i64} compares `value`",
    ],
    "assumptions": [],
    "not_covered": [],
}
