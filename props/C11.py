from verus import Unit
from kani import Harness

F = "scylla/src/routing/sharding.rs:"
_msb = [Harness(f"c11_shard_of_msb_{m:02d}", f"C11.shard_of.kani_contract.msb{m:02d}", "PROVED-C",
                f"as compiled: shard_of(t) == spec_shard(t,n,{m}) and < n for all i64 tokens, all n in 1..=65535 (z3)",
                solver="z3", functions=[F + "Sharder::shard_of"], timeout=300, backed_by="C11.Sharder.shard_of.contract") for m in range(64)]

PROPERTY = {
    "title": "shard of a token and shard-aware source ports match ScyllaDB's algorithm",
    "level": "proof",
    "level_text": "Deductive proof, all inputs: Verus proves on the extracted real functions that shard_of equals ScyllaDB's formula in mathematical integers and is < nr_shards, that shard_of_source_port is port mod n, and that calculate_lowest_port returns min{p in [lo,hi] | p mod n = shard} or None iff that set is empty (unbounded n, lo, hi). Kani/CBMC+z3 re-proves shard_of's in-place contract on the compiled code for all tokens and shard counts, one complete harness per msb_ignore 0..63.",
    "level_note": 'Trusted: Verus/Z3, Kani/CBMC/z3; vstd specs of integer ops; RangeInclusive::start/end and bool::then_some contracts; msb_ignore<64 taken as precondition. The random port draw is proved against trusted contracts of the step_by / ExactSizeIterator::len / nth and the random_range of rand (arithmetic progression, its length, any index below it). Not covered: the port ITERATOR (iter_source_ports_for_shard_from_range: chained StepBy adapters).',
    "technique": 'contract-based deductive verification: Verus contracts on extracted functions + Kani function contracts (proof_for_contract)',
    "timeout": 300,
    "verus": [
        Unit("c11_sharding", "C11", "c11_sharding.vrs", desc={
            "shard_of": "msb_ignore < 64 => r == floor((((t+2^63) mod 2^(64-m)) * 2^m) * n / 2^64) and r < n (mathematical integers, all inputs)",
            "shard_of_source_port": "r == port mod n and r < n",
            "draw_source_port_for_shard_from_range": "for ANY outcome of the random generator: the drawn port lies in the range and port mod n == shard; None only when no port of the range maps to the shard; the two assert!s and the unwrap() inside cannot fire (std's step_by / ExactSizeIterator::len / nth and rand's random_range are trusted contracts: arithmetic progression, its length, any index below it)",
            "calculate_lowest_port_for_shard_in_range": "Some(p): p = min{q in [lo,hi] | q mod n = shard}; None: that set is empty (all n, shard < n, lo <= hi)",
        }),
    ],
    "kani": _msb + [
        Harness("c11_shard_info_new", "C11.shard_info_new", "PROVED-C",
                "ShardInfo::new: Ok <=> shard < nr_shards, fields preserved; get_sharder copies them",
                functions=[F + "ShardInfo::new", F + "ShardInfo::get_sharder"]),
        Harness("c11_port_range_new", "C11.port_range_new", "PROVED-C",
                "ShardAwarePortRange::new: Ok <=> non-empty range starting at >= 1024, stored unchanged - it establishes valid_range, the precondition of the port contracts; EPHEMERAL_PORT_RANGE / default() are valid (every start, end)",
                functions=[F + "ShardAwarePortRange::new"]),
        Harness("c11_search_lowest_port", "C11.search.lowest_port", "BOUNDED", "counterexample search for the lowest-port contract (proved by Verus)", bound="search only, 300 s", search_only=True, timeout=300, functions=[F + "Sharder::calculate_lowest_port_for_shard_in_range"]),
        Harness("c11_search_shard_of_source_port", "C11.search.shard_of_source_port", "BOUNDED", "counterexample search for shard_of_source_port's contract (proved by Verus)", bound="search only, 300 s", search_only=True, timeout=300, functions=[F + "Sharder::shard_of_source_port"]),
        Harness("c11_spec_shard_sanity", "C11.spec_shard.sanity", "PROVED-C",
                "oracle self-check on ScyllaDB's documented corner values", carries=False),
        Harness("c11_canary_shard_of_is_zero", "C11.canary", "PROVED-C", "a false claim must be refuted",
                carries=False, canary=True),
    ],
    "trusted_base": [
        "Verus/Z3 and Kani/CBMC(+z3) soundness",
        "vstd specs of u64::wrapping_add, <<, >>, u16::checked_add, u32::from, NonZero::get, Option `?`",
        "trusted: RangeInclusive::start/end return the bounds (uninterpreted ri_start/ri_end), bool::then_some",
    ],
    "assumptions": [
        "Sharder.msb_ignore < 64 is a precondition (the property quantifies 0..=63); ShardInfo::try_from does not enforce it (DESIGN §6 O2)",
    ],
    "not_covered": ["iter_source_ports_for_shard_from_range (chained StepBy iterator adapters); draw_source_port_for_shard (expect on the ephemeral range)"],
}
