from verus import Unit
from kani import Harness

F = "scylla/src/network/connection.rs:"
PROPERTY = {
    "title": "every response reaches exactly the request it answers on a shared connection",
    "level": "proof",
    "verus": [
        Unit("c02_handler_map", "C02", "c02_handler_map.vrs", desc={
            "free": "bit of stream_id cleared, every other id's bit unchanged (all 32768 ids)",
            "new": "fresh state: no id used / empty maps, invariant holds",
            "insert": "orphan set gains exactly stream_id", "remove": "orphan set loses exactly stream_id",
            "contains": "membership in the orphan set",
            "allocate": "Ok(id): id owned by no unanswered request (waiting or orphaned) before; H gains id->handler, R gains request->id, O unchanged; Err: nothing changed and all 32768 ids owned; wf preserved",
            "orphan": "known request: its id moves H->O and stays reserved (bitmap unchanged); unknown request: no change; wf preserved",
            "lookup": "Handler(h): h is the handler registered under exactly this stream id; Orphaned/Missing per ownership; afterwards nobody owns the id; all other ids untouched; wf preserved",
            "into_handlers": "returns exactly H (the handlers of un-answered, non-abandoned requests)",
        }),
    ],
    "kani": [],
    "trusted_base": [
        "Verus/Z3 soundness; vstd models of std HashMap/BTreeSet/Vec/Box<[T]>",
        "single-task discipline of Connection::router: reader/writer/orphaner only touch the map between awaits on one task, so every schedule is a sequence of allocate/orphan/lookup calls (stated reduction, not proved)",
        "request ids unique per connection (AtomicU64 fetch_add generator) — precondition of allocate",
    ],
    "assumptions": [],
    "not_covered": ["write coalescing / socket ordering / cross-task races of OrphanhoodNotifier drop", "Connection::reader calling lookup only with stream >= 0 (caller obligation)"],
}
