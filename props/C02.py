from verus import Unit
from kani import Harness

F = "scylla/src/network/connection.rs:"
PROPERTY = {
    "title": "every response reaches exactly the request it answers on a shared connection",
    "level": "proof",
    "level_text": "Deductive proof of the safety core over all states: Verus proves on the extracted real ResponseHandlerMap/OrphanageTracker/StreamIdSet code a representation invariant (used bits = waiting ∪ orphaned ids, disjoint, request<->stream bijection) preserved by allocate/orphan/lookup, that allocate never returns an id owned by an unanswered request (waiting or abandoned), and that lookup hands out exactly the handler registered under the response's stream id. Every schedule of one connection is a sequence of these calls (stated reduction).",
    "level_note": "Trusted: Verus/Z3, vstd HashMap/BTreeSet models; StreamIdSet::allocate is proved by Verus on the real 512-word bitmap after the extractor's `iter_mut().enumerate()` -> index-loop desugaring (a trusted, mechanically applied rule; the Kani harnesses on the compiled original cross-check it on 8-word and shaped 512-word bitmaps); vstd's u64::trailing_ones axioms; single-task router discipline; unique request ids. Not covered: socket/coalescing schedules, cross-task cancellation races.",
    "technique": 'contract-based deductive verification: data-structure invariant + per-operation contracts in Verus on extracted functions',
    "verus": [
        Unit("c02_handler_map", "C02", "c02_handler_map.vrs", desc={
            "free": "bit of stream_id cleared, every other id's bit unchanged (all 32768 ids)",
            "new": "fresh state: no id used / empty maps, invariant holds",
            "insert": "orphan set gains exactly stream_id", "remove": "orphan set loses exactly stream_id",
            "contains": "membership in the orphan set",
            "StreamIdSet::allocate": "the LOWEST free id is returned and exactly its bit set; every other id unchanged; None iff all 32768 ids are in use (then nothing changes); no arithmetic overflow in the id computation",
            "lemma_trailing_ones": "for w != all-ones: trailing_ones(w) < 64, that bit is 0, all lower bits are 1 (vstd axioms + bit-vector)",
            "allocate": "Ok(id): id owned by no unanswered request (waiting or orphaned) before; H gains id->handler, R gains request->id, O unchanged; Err: nothing changed and all 32768 ids owned; wf preserved",
            "orphan": "known request: its id moves H->O and stays reserved (bitmap unchanged); unknown request: no change; wf preserved",
            "lookup": "Handler(h): h is the handler registered under exactly this stream id; Orphaned/Missing per ownership; afterwards nobody owns the id; all other ids untouched; wf preserved",
            "into_handlers": "returns exactly H (the handlers of un-answered, non-abandoned requests)",
        }),
    ],
    "timeout": 900,
    # CBMC treats arrays above 64 elements with the array theory unless told otherwise; the 512-word bitmap
    # is then intractable (measured: > 10 min per case). Field-sensitive arrays make every case a small query.
    "kani_args": ["--cbmc-args", "--max-field-sensitivity-array-size", "1024"],
    "kani": [
        Harness("c02_allocate_small8", "C02.stream_id_set.allocate.small8", "BOUNDED",
                "real StreamIdSet::allocate as compiled (cross-check of the extractor's loop desugaring used by the Verus proof): complete contract (minimum free id, exactly its bit set, others unchanged, None iff full) on a fully symbolic bitmap",
                bound="8-word bitmap (512 ids) instead of 512 words; all 2^512 states", functions=[F + "StreamIdSet::allocate"], backed_by="C02.StreamIdSet.allocate.contract"),
    ] + [Harness(f"c02_allocate_512_k{k:03d}", f"C02.stream_id_set.allocate.512.k{k}", "BOUNDED",
                 f"real 512-word bitmap, words < {k} full, word {k} symbolic, later words zero: lowest free id returned, only its bit set, no i16 overflow",
                 bound="state shape restricted (later words concrete)", tier="thorough", functions=[F + "StreamIdSet::allocate"], backed_by="C02.StreamIdSet.allocate.contract") for k in (0, 255, 511)] + [
        Harness("c02_allocate_full", "C02.stream_id_set.allocate.full", "PROVED-C", "all 32768 ids used => None, state unchanged (the unique full state)", tier="thorough", functions=[F + "StreamIdSet::allocate"]),
        Harness("c02_new_shape", "C02.stream_id_set.new.shape", "PROVED-C", "StreamIdSet::new: 512 zero words", functions=[F + "StreamIdSet::new"]),
        Harness("c02_canary_allocate_zero", "C02.kani.canary", "PROVED-C", "a false claim must be refuted", carries=False, canary=True),
    ],
    "trusted_base": [
        "Verus/Z3 soundness; vstd models of std HashMap/BTreeSet/Vec/Box<[T]>",
        "single-task discipline of Connection::router: reader/writer/orphaner only touch the map between awaits on one task, so every schedule is a sequence of allocate/orphan/lookup calls (stated reduction, not proved)",
        "request ids unique per connection (AtomicU64 fetch_add generator) — precondition of allocate",
    ],
    "assumptions": ["the extractor's enumerate-iter-mut desugaring of StreamIdSet::allocate's loop header (cross-checked by the Kani harnesses on the compiled original)", "vstd axioms for u64::trailing_ones / trailing_zeros"],
    "not_covered": ["write coalescing / socket ordering / cross-task races of OrphanhoodNotifier drop", "Connection::reader calling lookup only with stream >= 0 (caller obligation)"],
}
