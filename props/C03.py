from verus import Unit
from kani import Harness

F = "scylla/src/routing/partitioner.rs:"
_LENS = [0, 1, 2, 3, 4, 5, 6, 7, 8, 9, 10, 11, 12, 13, 14, 15, 16, 17, 31, 32, 33]
_TH = [47, 48, 49, 64, 65]
_steps = [Harness(f"c03_split_len{n:02d}", f"C03.murmur3.two_chunks.len{n:02d}", "PROVED-C",
                  f"all byte strings of length {n} x every cut position: write(k[..c]); write(k[c..]) gives Cassandra's token of k", solver="cvc5", timeout=900,
                  functions=[F + "Murmur3PartitionerHasher::write", F + "Murmur3PartitionerHasher::finish"]) for n in _LENS]
_spec = [Harness(f"c03_spec_len{n:02d}", f"C03.murmur3.equals_cassandra.len{n:02d}", "PROVED-C",
                 f"all byte strings of length {n}: real hasher token == Cassandra hash3_x64_128 (signed tail bytes) normalised", solver="cvc5", timeout=900,
                 functions=[F + "Murmur3Partitioner::hash_one", F + "Murmur3PartitionerHasher::write", F + "Murmur3PartitionerHasher::finish"],
                 tier=("thorough" if n in _TH else "quick")) for n in _LENS + _TH]

_pieces = [
    Harness("c03_block_mix", "C03.murmur3.piece.block_mix", "PROVED-C", "hash_16_bytes == the block-loop body of Cassandra's hash3_x64_128 for EVERY (h1, h2, k1, k2); total_len and buffer untouched (the contract of hash_16_bytes assumed by the Verus unit)", solver="cvc5", timeout=900, functions=[F + "Murmur3PartitionerHasher::hash_16_bytes"]),
    Harness("c03_fetch_le", "C03.murmur3.piece.fetch_le", "PROVED-C", "fetch_16_bytes_from_buf == two little-endian longs of the first 16 bytes, exactly 16 bytes consumed, for every input (contract assumed by the Verus unit)", timeout=900, functions=[F + "Murmur3PartitionerHasher::fetch_16_bytes_from_buf"]),
] + [Harness(f"c03_finish_tail_{n:02d}", f"C03.murmur3.piece.finish.tail{n:02d}", "BOUNDED",
             f"finish() == Cassandra's tail switch + length + fmix + normalisation for EVERY (h1, h2) and every buffer content, tail length {n} (signed tail bytes); the contract of finish assumed by the Verus unit", bound="total length in {{n, n + 16*(2^36+5), n + 2^63}} (the length enters finish only through its residue mod 16 and one xor; a symbolic length did not terminate in cvc5)", solver="cvc5", timeout=900,
             functions=[F + "Murmur3PartitionerHasher::finish"]) for n in range(16)]

PROPERTY = {
    "title": "routing token equals the server-side partitioner's token for the bound key",
    "level": "other",
    "level_text": "Mixed: (proof, unbounded) Verus proves on the extracted real Murmur3PartitionerHasher::write that for ALL key lengths and ALL ways of cutting the key bytes into write calls the hasher state represents the concatenation (h1,h2 = fold of the 16-byte block mix over the whole blocks, buffer = remaining tail, total_len = length), so finish() is the reference token of the concatenation; the three fixed-size pieces this rests on (block mix, little-endian fetch, tail/length finalisation for each of the 16 tail lengths) are compared with a transcription of Cassandra's hash3_x64_128 over their FULL domains by Kani (cvc5), which makes the equality with Cassandra's token hold for keys of every length. In addition (complete per case) Kani/CBMC proves on the real streaming Murmur3 hasher that for every byte string of each length in 0..=17, 31, 32, 33 and every position at which it can be cut in two, writing the two pieces gives the token of the whole (buffer carry-over at every offset), and that for every byte string of each of those lengths (thorough: also 47-49, 64, 65) the token equals an independent transcription of Cassandra's MurmurHash.hash3_x64_128 with signed tail bytes and the Long.MIN_VALUE normalisation (cvc5 back end); Token::new normalisation and the CDC partitioner (first 8 bytes big-endian, chunk-independent, short keys => minimum token) are complete proofs. Key lengths are enumerated, bytes are fully symbolic.",
    "level_note": "Bounded in the enumerated key/chunk lengths (each length is a complete proof over all byte values). Trusted: Kani/CBMC + cvc5 (single back end answers the hash-equality queries); bytes::Buf::get_i64_le as compiled. Not covered yet: composite-key serialisation order in PartitionKey (prepared.rs) and that the statement's partitioner is the table's.",
    "technique": "contract-based deductive verification: Verus representation invariant + loop invariant on the extracted streaming hasher (unbounded), Kani full-domain contracts for its fixed-size arithmetic pieces, per-length end-to-end cross-checks",
    "explanation": "per-length complete proofs (symbolic bytes), lengths enumerated; see samples",
    "timeout": 900,
    "kani": _pieces + _steps + _spec + [
        Harness("c03_token_new", "C03.token_new.normalise", "PROVED-C", "Token::new maps i64::MIN to i64::MAX, identity otherwise", functions=["scylla/src/routing/mod.rs:Token::new"]),
        Harness("c03_cdc_token", "C03.cdc.token", "PROVED-C", "CDC token = first 8 bytes BE (normalised) for keys up to 10 bytes under every 3-chunking; < 8 bytes => minimum token", functions=[F + "CDCPartitionerHasher::write", F + "CDCPartitionerHasher::finish"]),
        Harness("c03_partitioner_name", "C03.partitioner_name", "PROVED-C", "suffix match selects Murmur3 / CDC / none", functions=[F + "PartitionerName::from_str"]),
    ] + [Harness(f"c03_pk_new_{n}", f"C03.partition_key.new.{n}", "BOUNDED", d, bound="4 bind markers, concrete placement and value lengths (<= 2 bytes), symbolic bytes", timeout=600,
                 functions=["scylla/src/statement/prepared.rs:PartitionKey::new"])
         for n, d in (("two_in_order", "PartitionKey::new: 2 key columns, markers in key order: slot s = (value, spec) of the marker carrying key component s"),
                      ("two_swapped", "PartitionKey::new: 2 key columns, bind markers in the opposite order of the key"),
                      ("three_rotated", "PartitionKey::new: 3 key columns, rotated marker order, a non-key marker interleaved"),
                      ("three_reversed", "PartitionKey::new: 3 key columns, reversed marker order"),
                      ("four_reversed", "PartitionKey::new: 4 key columns, reversed marker order"))
    ] + [Harness(f"c03_pk_write_{n}", f"C03.partition_key.write.{n}", "BOUNDED", d, bound="concrete component count and lengths (<= 3 bytes), symbolic bytes", timeout=600,
                 functions=["scylla/src/statement/prepared.rs:PartitionKey::write_encoded_partition_key", "scylla/src/statement/prepared.rs:PartitionKey::iter"])
         for n, d in (("two", "write_encoded_partition_key on a 2-component key (as PartitionKey::new's contract leaves it): chunks = be16(len) ++ bytes ++ 0 per component in slot order"),
                      ("three", "... 3 components, one of them empty"), ("three_hole", "... 3 components and an absent (None) slot in between, which is skipped"),
                      ("four", "... 4 components"))
    ] + [Harness(f"c03_pk_{n}", f"C03.partition_key.layout.{n}", "BOUNDED", d, bound="4 bind markers, concrete placement and value lengths (<= 2 bytes), symbolic bytes",
                 timeout=300,
                 functions=["scylla/src/statement/prepared.rs:PartitionKey::new", "scylla/src/statement/prepared.rs:PartitionKey::write_encoded_partition_key"])
         # the end-to-end composite cases (c03_pk_two_in_order ... c03_pk_four_reversed; still in the overlay) are no longer registered:
         # 30-50 min each and no answer when five run side by side (thorough run of 2026-09-26). The same obligation is now
         # cut at the PartitionKey value into C03.partition_key.new.* and C03.partition_key.write.* (69 s for all nine).
         for n, d in (("single_first", "single key column at marker 0: hashed stream = its bytes (new + write end to end)"), ("single_last", "single key column at marker 3 (new + write end to end)"))] + [
        Harness("c03_canary_token_is_zero", "C03.canary", "PROVED-C", "a false claim must be refuted", carries=False, canary=True),
    ],
    "verus": [
        Unit("c03_murmur3_stream", "C03", "c03_murmur3_stream.vrs", desc={
            "Murmur3PartitionerHasher::write": "for ALL lengths and ALL ways of cutting the key into write calls: if the state represented d before, it represents d ++ part afterwards (h = fold of the block mix over the whole 16-byte blocks, buffer = the tail, total_len = length); the debug_asserts inside never fire; requires only that the total length fits usize",
            "Murmur3Partitioner::build_hasher": "a fresh hasher represents the empty byte string",
            "lemma_finish_is_token": "state represents d and finish's contract ==> finish() == reference token of d (blocks fold + tail/length finalisation)",
            "lemma_fold_prefix": "the first n blocks depend only on the first 16 n bytes",
            "lemma_fold_concat": "fold over x ++ y (x whole blocks) = fold over x, then over y",
        }, carries_lemmas=("lemma_finish_is_token", "lemma_fold_prefix", "lemma_fold_concat")),
    ],
    "trusted_base": ["Verus/Z3", "Kani/CBMC soundness; cvc5 for hash equalities", "correspondence by name between the uninterpreted spec_mix / spec_le_pair / spec_finish of the Verus unit and ref_mix / getblock / ref_finish of kani/C03 (the Verus unit is proved for every interpretation satisfying the three contracts)", "Ord::min, slice copy_from_slice, bytes::Buf::advance, &array[..], slice::is_empty, Default for [u8;16] as external_body contracts", "std::num::Wrapping re-declared as a same-shape tuple struct", "std::rt::thread_cleanup stub"],
    "assumptions": ["hasher total length fits usize (precondition of write)", "by-name correspondence spec_mix/spec_le_pair/spec_finish (Verus, uninterpreted) <-> ref_mix/getblock/ref_finish (Kani reference)", "finish is compared with the reference at three total lengths per tail length (not for a symbolic length)"],
    "not_covered": ["calculate_token_for_partition_key (the SerializedValues-based variant) and null key components", "partitioner name of the statement == table's (metadata)"],
}
