from verus import Unit
from kani import Harness

F = "scylla/src/routing/partitioner.rs:"
_LENS = [0, 1, 2, 3, 4, 5, 6, 7, 8, 9, 10, 11, 12, 13, 14, 15, 16, 17, 31, 32, 33]
_TH = [47, 48, 49, 64, 65]
_steps = [Harness(f"c03_step_n{n:02d}", f"C03.murmur3.chunking_step.n{n:02d}", "PROVED-C",
                  f"from ANY hasher state, write of a {n}-byte chunk == {n} one-byte writes (state and token)", timeout=900,
                  functions=[F + "Murmur3PartitionerHasher::write", F + "Murmur3PartitionerHasher::finish"]) for n in _LENS]
_spec = [Harness(f"c03_spec_len{n:02d}", f"C03.murmur3.equals_cassandra.len{n:02d}", "PROVED-C",
                 f"all byte strings of length {n}: real hasher token == Cassandra hash3_x64_128 (signed tail bytes) normalised", solver="cvc5", timeout=900,
                 functions=[F + "Murmur3Partitioner::hash_one", F + "Murmur3PartitionerHasher::write", F + "Murmur3PartitionerHasher::finish"],
                 tier=("thorough" if n in _TH else "quick")) for n in _LENS + _TH]

PROPERTY = {
    "title": "routing token equals the server-side partitioner's token for the bound key",
    "level": "other",
    "level_text": "Mixed: (complete per case) Kani/CBMC proves on the real streaming Murmur3 hasher that, from ANY hasher state, writing an n-byte chunk equals writing its bytes one by one for each chunk length n in 0..=17, 31, 32, 33 (the inductive step that makes the token independent of chunking), and that for every byte string of each of those lengths (thorough: also 47-49, 64, 65) the token equals an independent transcription of Cassandra's MurmurHash.hash3_x64_128 with signed tail bytes and the Long.MIN_VALUE normalisation (cvc5 back end); Token::new normalisation and the CDC partitioner (first 8 bytes big-endian, chunk-independent, short keys => minimum token) are complete proofs. Key lengths are enumerated, bytes are fully symbolic.",
    "level_note": "Bounded in the enumerated key/chunk lengths (each length is a complete proof over all byte values). Trusted: Kani/CBMC + cvc5 (single back end answers the hash-equality queries); bytes::Buf::get_i64_le as compiled. Not covered yet: composite-key serialisation order in PartitionKey (prepared.rs) and that the statement's partitioner is the table's.",
    "technique": "contract-style harnesses on the real code with Kani: representation-invariant step + equality with an independent spec function",
    "explanation": "per-length complete proofs (symbolic bytes), lengths enumerated; see samples",
    "timeout": 900,
    "kani": _steps + _spec + [
        Harness("c03_token_new", "C03.token_new.normalise", "PROVED-C", "Token::new maps i64::MIN to i64::MAX, identity otherwise", functions=["scylla/src/routing/mod.rs:Token::new"]),
        Harness("c03_cdc_token", "C03.cdc.token", "PROVED-C", "CDC token = first 8 bytes BE (normalised) for keys up to 10 bytes under every 3-chunking; < 8 bytes => minimum token", functions=[F + "CDCPartitionerHasher::write", F + "CDCPartitionerHasher::finish"]),
        Harness("c03_partitioner_name", "C03.partitioner_name", "PROVED-C", "suffix match selects Murmur3 / CDC / none", functions=[F + "PartitionerName::from_str"]),
        Harness("c03_pk_layout_single", "C03.partition_key.layout.1", "BOUNDED", "single key column at any of 4 markers: hashed stream = its bytes", bound="4 bind markers, values <= 2 bytes", functions=["scylla/src/statement/prepared.rs:PartitionKey::new", "scylla/src/statement/prepared.rs:PartitionKey::write_encoded_partition_key"]),
        Harness("c03_pk_layout_two", "C03.partition_key.layout.2", "BOUNDED", "2 key columns at any markers in any key order: be16(len) bytes 0 per component in partition-key order", bound="4 bind markers, values <= 2 bytes", functions=["scylla/src/statement/prepared.rs:PartitionKey::new", "scylla/src/statement/prepared.rs:PartitionKey::write_encoded_partition_key"]),
        Harness("c03_pk_layout_three", "C03.partition_key.layout.3", "BOUNDED", "3 key columns at any markers in any key order, one non-key marker interleaved", bound="4 bind markers, values <= 2 bytes", tier="thorough", functions=["scylla/src/statement/prepared.rs:PartitionKey::new"]),
        Harness("c03_canary_token_is_zero", "C03.canary", "PROVED-C", "a false claim must be refuted", carries=False, canary=True),
    ],
    "verus": [],
    "trusted_base": ["Kani/CBMC soundness; cvc5 for hash equalities", "std::rt::thread_cleanup stub"],
    "assumptions": [],
    "not_covered": ["calculate_token_for_partition_key (the SerializedValues-based variant) and null key components", "partitioner name of the statement == table's (metadata)"],
}
