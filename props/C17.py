from verus import Unit
from kani import Harness

PROPERTY = {
    "title": "type mismatches are always rejected and a failed bind leaves the request intact",
    "level": "other",
    "level_text": "Mixed: (proof, unbounded) Verus proves on the extracted real SerializedValues::add_value that after ANY failed attempt to add a value the already-bound bytes and the value count are exactly what they were, that a successful add appends exactly one well-formed [value] cell without touching earlier bytes, that the 65536th value is refused, and that the reported count always equals the number of encoded cells (representation invariant over the CQL [value] grammar); the cell/row writers every value goes through are proved in the same way (C01 unit). The carrier x column-type rejection matrix is checked by Kani harnesses (bounded / per type).",
    "level_note": "Trusted: Verus/Z3; the trait contract of SerializeValue::serialize (implementations only append through the CellWriter API and on Ok append one cell) is ASSUMED for implementations and checked per carrier by the C01 Kani harnesses; Vec::resize and error construction as external_body. Not covered: third-party SerializeValue impls.",
    "technique": "contract-based deductive verification: Verus invariant + rollback postcondition on extracted add_value, trait-level contract for serialize",
    "explanation": "rollback/count part: deductive proof (Verus); type-check matrix: Kani harnesses per carrier (see samples)",
    "verus": [
        Unit("c17_serialized_values", "C17", "c17_serialized_values.vrs", desc={
            "SerializedValues::add_value": "Err => bytes and count unchanged; Ok => count+1, one well-formed cell appended, prefix untouched; count == number of cells (invariant); 65535 values => Err",
            "SerializedValues::new": "empty, invariant holds",
            "lemma_cells_append": "appending one cell to a cell sequence yields a cell sequence with one more cell",
        }, carries_lemmas=("lemma_cells_append",)),
        Unit("c01_writers", "C17", "c01_writers.vrs", desc={}),
    ],
    "timeout": 900,
    "kani": [
        Harness("c17_twin_add_value", "C17.twin.add_value", "BOUNDED", "rollback + count == cells with a carrier that writes <= 3 bytes (+ a nested cell) through the CellWriter API and fails nondeterministically, after 0..2 earlier values", bound="5 concrete shapes (0..2 earlier values, 0..3 bytes written before failing, custom / type-check failure), bytes symbolic", crate="scylla-cql-core", twin=True, functions=["scylla-cql-core/src/serialize/row.rs:SerializedValues::add_value"]),
    ],
    "trusted_base": ["Verus/Z3 soundness", "SerializeValue::serialize trait contract (assumed for impls)", "Vec::resize truncation", "i32::to_be_bytes"],
    "assumptions": [],
    "not_covered": ["type-check matrix (pending)", "third-party impls of SerializeValue"],
}
