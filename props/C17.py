from verus import Unit
from kani import Harness

PROPERTY = {
    "title": "type mismatches are always rejected and a failed bind leaves the request intact",
    "level": "other",
    "level_text": "Mixed: (proof, unbounded) Verus proves on the extracted real SerializedValues::add_value that after ANY failed attempt to add a value the already-bound bytes and the value count are exactly what they were, that a successful add appends exactly one well-formed [value] cell without touching earlier bytes, that the 65536th value is refused, and that the reported count always equals the number of encoded cells (representation invariant over the CQL [value] grammar); the cell/row writers every value goes through are proved in the same way (C01 unit). The carrier x column-type rejection matrix is checked by Kani harnesses (bounded / per type).",
    "level_note": "Trusted: Verus/Z3; the trait contract of SerializeValue::serialize (implementations only append through the CellWriter API and on Ok append one cell) is ASSUMED for implementations and checked per carrier by the C01 Kani harnesses; Vec::resize and error construction as external_body. Not covered: third-party SerializeValue impls.",
    "technique": "contract-based deductive verification: Verus invariant + rollback postcondition on extracted add_value, trait-level contract for serialize",
    "explanation": "rollback/count part: deductive proof (Verus); type-check matrix: Kani harnesses per carrier (see samples)",
    "verus": [
        Unit("c17_serialized_values", "C17", "c17_serialized_values.vrs", desc={
            "SerializedValues::add_value": "Err => bytes and count unchanged; Ok => count+1, one well-formed cell appended, prefix untouched; count == number of cells (invariant); 65535 values => Err",
            "SerializedValues::new": "empty, invariant holds",
            "lemma_cells_append": "appending one cell to a cell sequence yields a cell sequence with one more cell",
        }, carries_lemmas=("lemma_cells_append",)),
        Unit("c01_writers", "C17", "c01_writers.vrs", desc={}),
    ],
    "timeout": 900,
    "extra_overlays": ["C01"],
    "kani": [
        Harness("c17_twin_add_value", "C17.twin.add_value", "BOUNDED", "rollback + count == cells with a carrier that writes <= 3 bytes (+ a nested cell) through the CellWriter API and fails nondeterministically, after 0..2 earlier values", bound="5 concrete shapes (0..2 earlier values, 0..3 bytes written before failing, custom / type-check failure), bytes symbolic", crate="scylla-cql-core", twin=True, functions=["scylla-cql-core/src/serialize/row.rs:SerializedValues::add_value"]),
    ] + [
        Harness(f"c17_read_{g}_carriers", f"C17.matrix.read.{g}", "PROVED-C", f"DeserializeValue::type_check of the {g} carriers ({c}) accepts a native column type iff the documentation table lists the pair; all 20 native types (loop-free, full domain)", crate="scylla-cql-core", functions=["scylla-cql-core/src/deserialize/value.rs:impl_strict_type!/exact_type_check! instances"])
        for g, c in (("text", "String, &str"), ("text_ptr", "Box<str>, Arc<str>"), ("blob", "Vec<u8>, &[u8], Bytes"), ("bignum", "CqlVarint(Borrowed), CqlDecimal(Borrowed)"),
                     ("misc", "IpAddr, CqlDuration, Uuid, CqlTimeuuid, Counter"), ("fixed", "bool, i8..i64, f32, f64, CqlDate, CqlTime, CqlTimestamp"))
    ] + [
        Harness(f"c17_bind_{g}_carriers", f"C17.matrix.bind.{g}", "PROVED-C", f"SerializeValue::serialize of the {g} carriers ({c}) succeeds iff the documentation table lists the pair, and a refused value writes no byte; all 20 native types", crate="scylla-cql-core", functions=["scylla-cql-core/src/serialize/value.rs:impl_serialize_via_writer!/exact_type_check! instances"])
        for g, c in (("text", "str, String"), ("blob", "Vec<u8>, &[u8], [u8; N]"), ("bignum", "CqlVarintBorrowed, CqlDecimalBorrowed"), ("misc", "IpAddr, CqlDuration"))
    ] + [
        Harness(f"c17_nest_{n}", f"C17.matrix.nest.{n}", "PROVED-C", d + "; element native type symbolic over all 20", crate="scylla-cql-core")
        for n, d in (("read_option_box_arc", "Option<i32>, Box<i32>, Arc<i32>, Option<Option<i32>> read a column iff i32 does"),
                     ("read_vec", "Vec<i32> reads list<t>/set<t>/vector<t,2> iff i32 reads t; native and map columns refused"),
                     ("read_vec_depth2", "Vec<Vec<i32>> reads list<list<t>> iff i32 reads t (mismatch at depth 2 refused)"),
                     ("read_sets_maps", "BTreeSet<i32> reads set<k> iff i32 reads k; BTreeMap<i32,String> reads map<k,v> iff both do; list refused"),
                     ("read_tuple", "(i32, String) reads tuple<a,b> iff both fields do; 1-tuple and native columns refused"),
                     ("bind_option_box", "Some(7), &7, Box(7) bind iff i32 binds; refused => no byte written"))
    ] + [
        Harness(f"c17_shape_{k}", f"C17.matrix.shape.{k}", "PROVED-C", f"a {k} column is refused by native carriers, both reading (i32, String, Vec<u8>, Uuid) and binding (i32, str; no byte written)", crate="scylla-cql-core")
        for k in ("list", "set", "map", "vector", "tuple", "udt")
    ] + [
        Harness(f"c01_{t}", f"C17.matrix.fixed.{t}", "PROVED-C", f"{t}: bind accepted iff documented, refused bind writes no byte, read accepted iff documented, wrong-width and null cells refused (every value, all 20 native types)", crate="scylla-cql-core", functions=["scylla-cql-core/src/serialize/value.rs:SerializeValue for " + t, "scylla-cql-core/src/deserialize/value.rs:DeserializeValue for " + t])
        for t in ("i8", "i16", "i32", "i64", "bool", "f32", "f64", "counter", "date", "time", "timestamp", "uuid", "timeuuid")
    ] + [
        Harness("c17_canary_string_reads_blob", "C17.kani.canary", "PROVED-C", "a false claim must be refuted", crate="scylla-cql-core", carries=False, canary=True),
    ],
    "trusted_base": ["error-renaming helpers typck_error_replace_rust_name / fix_rust_name_in_err stubbed by identity in the matrix harnesses (type Error -> Error: cannot change accept/refuse)", "parametricity of the generic container impls in their element type (checked with i32/String elements)", "Verus/Z3 soundness", "SerializeValue::serialize trait contract (assumed for impls)", "Vec::resize truncation", "i32::to_be_bytes"],
    "assumptions": ["Kani stubs in the matrix harnesses: typck_error_replace_rust_name / fix_rust_name_in_err by the identity and the two mk_typck_err_named constructors by constructors that do not deep-copy the column type (all of type ... -> Error: cannot change accept/refuse)", "parametricity of the generic container impls in their element type"],
    "not_covered": ["carriers behind optional cargo features (chrono, time, num-bigint, bigdecimal, secrecy)", "HashMap/HashSet carriers (std hashing is out of CBMC's reach; BTreeMap/BTreeSet/Vec share the element delegation)", "binding of sequences/maps/tuples (the sequence writer's paths exceed CBMC; the cell/row writers are proved in the C01 unit)", "UDT carriers (derive macros: C16)", "third-party impls of SerializeValue"],
}
