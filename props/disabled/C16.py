from verus import Unit
from kani import Harness

M = "scylla-macros/src/"
PROPERTY = {
    "title": "derived row/UDT mappings bind fields by name regardless of database order",
    "level": "model_checking",
    "level_text": "Bounded model checking of the macro EXPANSIONS for a fixed family of derived structs (3 fields: int, bigint, Option<smallint>): for all 6 permutations of the database-side field/column order and all field values, Kani checks on the compiled generated code that by-name serialization puts each value in the database's position (bytes == independent spec encoding), that value -> bytes -> value is the identity, that the enforce_order flavour accepts precisely the declared order, that renamed fields bind to the like-named database field, that a struct field missing from the database type is rejected, that an excess database field (any position) gets NULL in its own position and is ignored on read, that an allow_missing field is filled from the like-named field wherever it is listed; for UDT values and for rows.",
    "level_note": "Bounded by construction: a fixed struct family with 3 fields, not the macro generator itself (contracts cannot be put on proc-macro token manipulation). Not covered: flatten, default_when_null, forbid_excess_udt_fields, skip_name_checks, more than 3(+1) fields.",
    "technique": "bounded model checking with Kani of derive-macro expansions over all field-order permutations (labelled bounded; no deductive contract reaches a proc-macro)",
    "timeout": 1500,
    "kani_args": ["--no-memory-safety-checks", "--cbmc-args", "--unwindset", "memcmp.0:48"],
    "kani": (
        [Harness(f"c16_udt_by_name_p{p}", f"C16.udt.by_name.perm{p}", "BOUNDED", f"DB field order permutation #{p}, all values: bytes in DB order, round trip identity", bound="3-field struct family", crate="scylla-cql-core", functions=[M + "serialize/value.rs (expansion)", M + "deserialize/value.rs (expansion)"]) for p in range(6)]
        + [Harness(f"c16_udt_enforce_order_p{p}", f"C16.udt.enforce_order.perm{p}", "BOUNDED", "ordered flavour accepts precisely the declared order", bound="3-field struct family", crate="scylla-cql-core", functions=[M + "serialize/value.rs (expansion)"]) for p in range(6)]
        + [Harness(f"c16_udt_rename_p{p}", f"C16.udt.rename.perm{p}", "BOUNDED", "renamed (crossed) names bind to the like-named DB field", bound="3-field struct family", crate="scylla-cql-core", functions=[M + "serialize/value.rs (expansion)"]) for p in range(6)]
        + [Harness(f"c16_udt_allow_missing_p{p}", f"C16.udt.allow_missing.perm{p}", "BOUNDED", "allow_missing field filled from the like-named DB field wherever it is listed", bound="3-field struct family", crate="scylla-cql-core", functions=[M + "deserialize/value.rs (expansion)"]) for p in range(6)]
        + [Harness(f"c16_row_by_name_p{p}", f"C16.row.by_name.perm{p}", "BOUNDED", "derived SerializeRow/DeserializeRow: column order permutation, bytes in DB order, round trip", bound="3-field struct family", crate="scylla-cql-core", functions=[M + "serialize/row.rs (expansion)", M + "deserialize/row.rs (expansion)"]) for p in range(6)]
        + [Harness(f"c16_udt_excess_p{p}_at{k}", f"C16.udt.excess_field.perm{p}.at{k}", "BOUNDED", f"an unknown DB field at position {k}: NULL in its own position, nothing shifted; ignored on read", bound="3-field struct family + 1 excess field", crate="scylla-cql-core", functions=[M + "serialize/value.rs (expansion)", M + "deserialize/value.rs (expansion)"]) for p in (0, 5) for k in range(4)]
        + [Harness("c16_udt_ser_by_name_p3", "C16.udt.ser_by_name.perm3", "BOUNDED", "serialize only", bound="x", crate="scylla-cql-core")]
        + [Harness("c16_udt_missing_field_rejected", "C16.udt.missing_rejected", "BOUNDED", "a struct field missing from the DB type is rejected under default attributes", bound="3-field struct family", crate="scylla-cql-core", functions=[M + "serialize/value.rs (expansion)"]),
           Harness("c16_canary_declared_order_on_the_wire", "C16.canary", "BOUNDED", "a false claim must be refuted", crate="scylla-cql-core", carries=False, canary=True)]
    ),
    "verus": [],
    "trusted_base": ["Kani/CBMC soundness", "stubs: std::rt::thread_cleanup, alloc::fmt::format (error-message text only)"],
    "assumptions": [],
    "not_covered": ["the macro generator for arbitrary structs", "attributes flatten/default_when_null/allow_missing/forbid_excess_udt_fields/skip_name_checks", "more than 3 fields"],
}
