from verus import Unit
from kani import Harness

PROPERTY = {
    "title": "request frames on the wire say exactly what the caller asked for",
    "level": "other",
    "level_text": "Deductive proof (unbounded sizes, all field combinations) for the parts claimed: Verus proves on the extracted real writers that write_int/long/short/bytes/short_bytes/string/long_string/consistency/serial_consistency append exactly the CQL v4 encodings and refuse (writing nothing) lengths that do not fit 16/32 bits; that QueryParameters::serialize emits <consistency><flags>[values][page_size][paging_state][serial_consistency][timestamp] with the flag byte equal to exactly the presence bits, for all 2^6 option subsets and all values; that QUERY/PREPARE bodies are <long string>[<query_parameters>], the EXECUTE body is <id>[<result_metadata_id>]<query_parameters>, BATCH statement entries are <kind><string or id> and the whole BATCH envelope is <type><n> entries <consistency><flags>[serial][timestamp] with one entry per statement in order, OPTIONS is empty, AUTH_RESPONSE is <token: [bytes]> (null when absent), a [string list] (REGISTER's body format) is <n>[string]*n in order, the STARTUP body is the [string map] of the options with every option exactly once, the REGISTER body is the [string list] of the requested event type names in order; and that SerializedRequest::make writes version 4, flags = exactly compression|tracing, the request type's opcode, a length field equal to the body size and (uncompressed) the serialized body, set_stream changing only the two stream bytes. The specification side is an independent transcription of native_protocol_v4.spec as Verus spec functions.",
    "level_note": "Trusted: Verus/Z3; bytes::BufMut modelled as an append-only big-endian sink (trait contract), Cow deref, AsRef<[u8]> (Vec<u8> = its content), AsRef<str>, vstd's std HashMap model incl. obeys_key_model for Cow<str> keys (precondition), &String -> &str, &Vec<String> -> &[String], Display of EventType (uninterpreted name), str::len, slice copy, to_be_bytes as external_body contracts; lz4/snappy only assumed to append. Not covered: the value bytes inside BATCH entries, RegisterV2, compressed body round trip, session-level choice of parameters.",
    "technique": "contract-based deductive verification: Verus ensures == protocol spec functions on extracted writer functions",
    "explanation": "claimed parts are deductive proofs; remaining request kinds listed under not_covered",
    "verus": [
        Unit("c09_requests", "C09", "c09_requests.vrs", desc={
            "QueryParameters::serialize": "output == spec <query_parameters> (flags = presence bits, protocol field order); oversized paging state refused",
            "Query::serialize": "QUERY body == [long string] statement ++ <query_parameters>",
            "Prepare::serialize": "PREPARE body == [long string] statement",
            "ExecuteV2::serialize": "EXECUTE body == [short bytes] id ++ [optional [short bytes] result metadata id] ++ <query_parameters>; ids > 65535 bytes refused",
            "serialize_batch_statement": "BATCH entry: kind byte 0 + [long string] / 1 + [short bytes] id",
            "Options::serialize": "OPTIONS: empty body",
            "AuthResponse::serialize": "AUTH_RESPONSE body == [bytes] token, null ([int] -1) when absent; oversize token refused and nothing written",
            "write_bytes_opt": "Some(b) -> [int] len ++ b, None -> [int] -1; len > i32::MAX refused, nothing written",
            "write_string_map": "[string map] == [short] n ++ every entry of the map exactly once as <key [string]><value [string]> (in the hash map's iteration order: an enumeration of the map without duplicates); oversize refused",
            "Startup::serialize": "STARTUP body == the [string map] of the options: every option exactly once, nothing else",
            "Batch::do_serialize": "BATCH body == <type [byte]><n [short]> n entries then <consistency [short]><flags [byte]>[<serial consistency [short]>][<timestamp [long]>]: as many entries as statements, the i-th entry starts with the i-th statement's <kind><string | id> followed by a 2-byte value count and the values; flags == exactly the presence bits 0x10 | 0x20; type byte per BatchType; more than 65535 statements refused (existential over the per-entry value bytes, loop invariant with a ghost sequence of entries; the back-patched count field is proved to overwrite exactly the two reserved bytes)",
            "Batch::serialize": "as do_serialize, through the error conversion",
            "RegisterV2::serialize": "the same for REGISTER with EventTypeV2 event types",
            "Register::serialize": "REGISTER body == [string list] of the protocol names of the requested event types, in order (loop invariant over the constructed name list)",
            "write_string_list": "[string list] == [short] n ++ the n strings as [string], in order (loop invariant over the list prefix); Ok <=> n and every string fit 16 bits",
            "SerializedRequest::make": "header: version 4, flags exactly compression|tracing, opcode, length == body size; body == request serialization when uncompressed",
            "SerializedRequest::set_stream": "only bytes 2..4 change, big-endian stream id",
            "write_bytes": "[bytes]; > i32::MAX refused, nothing written", "write_string": "[string]; > u16::MAX refused",
            "write_consistency": "[consistency] code per protocol table",
        }),
    ],
    "timeout": 900,
    "kani": [
        Harness("c09_twin_query_parameters", "C09.twin.query_parameters", "BOUNDED", "QueryParameters::serialize into a real Vec<u8>: all subsets of {serial consistency, timestamp, page size, paging state, skip_metadata}, symbolic values, hand-written protocol layout", bound="no bound values, 1-byte paging state, fixed consistency", crate="scylla-cql", twin=True, functions=["scylla-cql/src/frame/request/query.rs:QueryParameters::serialize"]),
        Harness("c09_twin_short_length_guard", "C09.twin.short_length_guard", "PROVED-C", "write_short_length: all usize values: > 65535 refused and nothing written", crate="scylla-cql", twin=True, functions=["scylla-cql/src/frame/types.rs:write_short_length"]),
    ],
    "trusted_base": ["Verus/Z3 soundness", "bytes::BufMut append-only big-endian contract", "Cow<T> deref, str::len, to_be_bytes, slice copy_from_slice (external_body)", "compress_append only appends"],
    "assumptions": ["obeys_key_model::<Cow<str>>() (precondition of the STARTUP contract: the option keys behave as hash-map keys)", "the extractor's name-impl-trait and iter-map-collect rules", "Display of EventType is an uninterpreted name"],
    "not_covered": ["the value bytes inside a BATCH entry (produced by the RawBatchValues iterator: only append-only-ness is assumed) and that the 2-byte count equals the number of values written (RowWriter::value_count, proved in the C01 unit)", "LZ4/Snappy round trip", "bodies >= 4 GiB (length cast truncates; far above the protocol's frame limit)"],
}
