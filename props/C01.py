from verus import Unit
from kani import Harness

W = "scylla-cql-core/src/serialize/writers.rs:"
PROPERTY = {
    "title": "CQL value encoding conforms to the protocol and round-trips",
    "level": "other",
    "level_text": "Mixed, reported separately: (proof, unbounded buffers/contents) Verus proves on the extracted real CellWriter/CellValueBuilder/RowWriter functions the framing every encoded value goes through: null = be32(-1), unset = be32(-2), a value = be32(len) ++ bytes with len > i32::MAX refused and nothing written, the builder's placeholder is back-patched with exactly the big-endian length of what follows and nothing else changes, value_count grows by one per cell. (complete / bounded) Kani compares each fixed-width native carrier's serialize output (every value, every one of the 20 native column types) with an independent spec encoder and round-trips it through deserialize; the same for inet (every IPv4/IPv6 address), the vint codec (every u64/i64), text (2-byte ASCII, the empty cell), blob (<= 4 bytes), varint (3 bytes), decimal (2 bytes, every scale) and duration (one field symbolic at a time).",
    "level_note": "Trusted: Verus/Z3, Kani/CBMC; i32::to_be_bytes, slice copy_from_slice (external_body); Not covered: collection/tuple/UDT carriers (their writers are proved, their element loops are not; binding a Vec already exceeds CBMC), feature-gated carriers.",
    "technique": "contract-based deductive verification: Verus contracts on extracted writer functions (+ Kani harnesses vs. independent spec encoder for carriers)",
    "explanation": "framing layer: deductive proof (Verus). carriers: Kani harnesses, complete for fixed-width natives, bounded for variable-length and containers",
    "verus": [
        Unit("c01_writers", "C01", "c01_writers.vrs", desc={
            "CellWriter::set_null": "appends be32(-1)", "CellWriter::set_unset": "appends be32(-2)",
            "CellWriter::set_value": "Ok iff len <= i32::MAX; appends [be32(len)] ++ contents; Err writes nothing",
            "CellValueBuilder::new": "appends the 4-byte placeholder iff write_size; records starting_pos",
            "CellValueBuilder::finish": "back-patches exactly the placeholder with be32(len of what follows); Ok iff it fits i32",
            "CellValueBuilder::append_bytes": "appends bytes",
            "RowWriter::make_cell_writer": "value_count + 1, buffer untouched",
        }),
    ],
    "timeout": 900,
    # functional-equivalence harnesses over safe Rust: CBMC's per-dereference pointer checks (thousands per harness)
    # dominate the cost; panics, unwraps, index and arithmetic-overflow checks stay on.
    "kani_args": ["--no-memory-safety-checks"],
    "kani": [Harness(f"c01_{t}", f"C01.native.{t}", "PROVED-C",
                     f"{t}: all values x all 20 native column types: Ok iff documented pair; bytes == be32(width) ++ big-endian value; mismatch writes nothing; type_check matrix; decode(encode(v)) == v bit for bit; wrong width / null rejected",
                     crate="scylla-cql-core", functions=[f"scylla-cql-core/src/serialize/value.rs:<{t} as SerializeValue>::serialize", f"scylla-cql-core/src/deserialize/value.rs:<{t} as DeserializeValue>::{{type_check,deserialize}}"])
             for t in ("i8", "i16", "i32", "i64", "bool", "f32", "f64", "counter", "date", "time", "timestamp", "uuid", "timeuuid")] + [
        Harness("c01_unsigned_vint_roundtrip", "C01.vint.unsigned_roundtrip", "PROVED-C", "all u64: shortest encoding, first byte announces the extra bytes, decode(encode(v)) == v, consumes exactly the encoding", crate="scylla-cql-core", functions=["scylla-cql-core/src/frame/types.rs:unsigned_vint_encode", "scylla-cql-core/src/frame/types.rs:unsigned_vint_decode"]),
        Harness("c01_vint_zigzag_roundtrip", "C01.vint.zigzag_roundtrip", "PROVED-C", "all i64: zig-zag mapping per definition; vint_decode(vint_encode(v)) == v", crate="scylla-cql-core", functions=["scylla-cql-core/src/frame/types.rs:zig_zag_encode", "scylla-cql-core/src/frame/types.rs:zig_zag_decode", "scylla-cql-core/src/frame/types.rs:vint_encode", "scylla-cql-core/src/frame/types.rs:vint_decode"]),
        Harness("c01_unsigned_vint_decode_any_bytes", "C01.vint.decode_any_bytes", "PROVED-C", "any <= 9 bytes: Ok iff the announced bytes are present; never past the end", crate="scylla-cql-core", functions=["scylla-cql-core/src/frame/types.rs:unsigned_vint_decode"]),
    ] + [Harness(f"c01_{n}", f"C01.wrappers.{n}", "PROVED-C", d, crate="scylla-cql-core", functions=["scylla-cql-core/src/serialize/value.rs:Option<T>/MaybeUnset<T>/Unset serialize"])
         for n, d in (("option_none", "None -> null cell be32(-1)"), ("unset", "Unset -> be32(-2)"), ("maybe_unset", "MaybeUnset: Unset -> be32(-2), Set(v) -> v's cell"),
)] + [
        Harness("c01_text_str", "C01.varlen.text", "BOUNDED", "str -> text/ascii: [int 2] ++ the two bytes, earlier bytes untouched", bound="ASCII strings of exactly 2 bytes, all values", crate="scylla-cql-core", functions=["scylla-cql-core/src/serialize/value.rs:SerializeValue for str", "scylla-cql-core/src/deserialize/value.rs:DeserializeValue for &str"]),
        Harness("c01_text_empty", "C01.varlen.text_empty", "PROVED-C", "the empty string is the zero-length cell [int 0] and decodes back to the empty string; null does not decode to a str", crate="scylla-cql-core", functions=["scylla-cql-core/src/serialize/value.rs:SerializeValue for str", "scylla-cql-core/src/deserialize/value.rs:DeserializeValue for &str"]),
        Harness("c01_blob_slice", "C01.varlen.blob", "BOUNDED", "&[u8] -> blob: [int n] ++ bytes; decode(encode(b)) == b", bound="byte strings of <= 4 bytes, all values", crate="scylla-cql-core", functions=["scylla-cql-core/src/serialize/value.rs:SerializeValue for &[u8]", "scylla-cql-core/src/deserialize/value.rs:DeserializeValue for &[u8]"]),
        Harness("c01_inet_v4", "C01.varlen.inet_v4", "PROVED-C", "every IPv4 address: [int 4] ++ 4 octets; round trip; a 3-byte inet cell refused", crate="scylla-cql-core", functions=["scylla-cql-core/src/serialize/value.rs:SerializeValue for IpAddr", "scylla-cql-core/src/deserialize/value.rs:DeserializeValue for IpAddr"]),
        Harness("c01_inet_v6", "C01.varlen.inet_v6", "PROVED-C", "every IPv6 address: [int 16] ++ 16 octets; round trip", crate="scylla-cql-core", functions=["scylla-cql-core/src/serialize/value.rs:SerializeValue for IpAddr", "scylla-cql-core/src/deserialize/value.rs:DeserializeValue for IpAddr"]),
        Harness("c01_varint_borrowed", "C01.varlen.varint", "BOUNDED", "CqlVarintBorrowed -> varint: [int n] ++ the two's-complement bytes verbatim", bound="3-byte values, all contents", crate="scylla-cql-core", functions=["scylla-cql-core/src/serialize/value.rs:SerializeValue for CqlVarintBorrowed"]),
        Harness("c01_decimal_borrowed", "C01.varlen.decimal", "BOUNDED", "CqlDecimalBorrowed -> decimal: [int 4+n] ++ scale [int] ++ unscaled bytes, every scale", bound="2-byte unscaled values, all contents, all scales", crate="scylla-cql-core", functions=["scylla-cql-core/src/serialize/value.rs:SerializeValue for CqlDecimalBorrowed"]),
        Harness("c01_duration_nanos", "C01.varlen.duration_nanos", "BOUNDED", "CqlDuration -> duration: [int n] ++ vint(months) vint(days) vint(nanoseconds); the three vints decode back to the fields and fill the cell exactly", bound="months = -3, days = 7, every nanoseconds value", crate="scylla-cql-core", timeout=900, functions=["scylla-cql-core/src/serialize/value.rs:SerializeValue for CqlDuration"]),
        Harness("c01_duration_months", "C01.varlen.duration_months", "BOUNDED", "as above", bound="every months value, days = 0, nanoseconds = 0", crate="scylla-cql-core", timeout=900, functions=["scylla-cql-core/src/serialize/value.rs:SerializeValue for CqlDuration"]),
        Harness("c01_canary_i32_little_endian", "C01.kani.canary", "PROVED-C", "a false claim must be refuted", crate="scylla-cql-core", carries=False, canary=True),
    ],
    "trusted_base": ["Verus/Z3 soundness", "i32::to_be_bytes (big-endian)", "Vec slicing + copy_from_slice"],
    "assumptions": [],
    "not_covered": ["collection/tuple/UDT carriers at any nesting (only the cell/row writers they go through are proved)", "carriers behind optional cargo features"],
}
