from verus import Unit
from kani import Harness

W = "scylla-cql-core/src/serialize/writers.rs:"
PROPERTY = {
    "title": "CQL value encoding conforms to the protocol and round-trips",
    "level": "other",
    "level_text": "Mixed, reported separately: (proof, unbounded buffers/contents) Verus proves on the extracted real CellWriter/CellValueBuilder/RowWriter functions the framing every encoded value goes through: null = be32(-1), unset = be32(-2), a value = be32(len) ++ bytes with len > i32::MAX refused and nothing written, the builder's placeholder is back-patched with exactly the big-endian length of what follows and nothing else changes, value_count grows by one per cell. (complete / bounded) Kani compares each native carrier's serialize output with an independent spec encoder and round-trips it through deserialize.",
    "level_note": "Trusted: Verus/Z3, Kani/CBMC; i32::to_be_bytes, slice copy_from_slice (external_body); Not covered yet: containers at arbitrary nesting (inductive step with symbolic elements), feature-gated carriers.",
    "technique": "contract-based deductive verification: Verus contracts on extracted writer functions (+ Kani harnesses vs. independent spec encoder for carriers)",
    "explanation": "framing layer: deductive proof (Verus). carriers: Kani harnesses, complete for fixed-width natives, bounded for variable-length and containers",
    "verus": [
        Unit("c01_writers", "C01", "c01_writers.vrs", desc={
            "CellWriter::set_null": "appends be32(-1)", "CellWriter::set_unset": "appends be32(-2)",
            "CellWriter::set_value": "Ok iff len <= i32::MAX; appends [be32(len)] ++ contents; Err writes nothing",
            "CellValueBuilder::new": "appends the 4-byte placeholder iff write_size; records starting_pos",
            "CellValueBuilder::finish": "back-patches exactly the placeholder with be32(len of what follows); Ok iff it fits i32",
            "CellValueBuilder::append_bytes": "appends bytes",
            "RowWriter::make_cell_writer": "value_count + 1, buffer untouched",
        }),
    ],
    "kani": [],
    "trusted_base": ["Verus/Z3 soundness", "i32::to_be_bytes (big-endian)", "Vec slicing + copy_from_slice"],
    "assumptions": [],
    "not_covered": ["carriers/containers (pending Kani harnesses)"],
}
